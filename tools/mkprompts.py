#!/usr/bin/env python3
"""tools/mkprompts.py <round> : writes /tmp/agentprompts/<round>-<prop>[-x].txt and creates the scratch worktrees /tmp/wt/<round>-<prop>[-x].
The prompt contains only the text of one property (plus the mechanisms other sub-agents already used, and a focus hint) - nothing from /verif."""
import json, os, subprocess, sys
rnd = sys.argv[1]
props = {json.loads(l)['id']: json.loads(l) for l in open('/verif/properties.jsonl')}
USED = json.load(open('/verif/tools/used_ideas.json'))
FOCUS = json.load(open('/verif/tools/focus.json')).get(rnd, {})
os.makedirs('/tmp/agentprompts', exist_ok=True)
os.makedirs('/tmp/wt', exist_ok=True)
for key, focus in FOCUS.items():
    pid = key.split('-')[0]
    p = props[pid]
    wt = f'/tmp/wt/{rnd}-{key}'
    if not os.path.isdir(wt):
        subprocess.run(['git', '-C', '/repo', 'worktree', 'add', '--detach', wt, 'HEAD', '-q'], check=True)
    prompt = f"""You are helping to evaluate a verification effort by playing the role of a developer who introduces a subtle regression.

You work ONLY inside the scratch git worktree {wt} (a checkout of NREL/GEOPHIRES-X, a Python geothermal techno-economic simulator: packages under src/: geophires_x, geophires_x_client, geophires_monte_carlo, hip_ra_x, hip_ra; tests under tests/). Never read or modify /repo or /verif (off limits) and do not create other worktrees. There is no network.

Python: /venv/bin/python (3.12). The package is installed in editable mode pointing at /repo/src, so you MUST put the worktree first: run everything with PYTHONPATH={wt}/src (and check `geophires_x.__file__` starts with {wt}). The test suite: `cd {wt} && PYTHONPATH={wt}/src /venv/bin/python -m pytest -ra -q -p no:cacheprovider --timeout=900 --continue-on-collection-errors` (about 30 seconds; it leaves a stray file named `-q` in the worktree root - delete it). On the UNCHANGED tree the result is `6 failed, 149 passed, 6 skipped, 4 errors` (those failures/errors are pre-existing: missing network/data files). Your change must leave exactly the same set of failing tests.

IMPORTANT: do NOT use `git stash` (the stash is shared between all worktrees of this repository and other people are working in sibling worktrees at the same time). To test the clean tree, save your diff (`git -C {wt} diff -- src > /tmp/{rnd}-{key}.diff`), revert with `git -C {wt} apply -R /tmp/{rnd}-{key}.diff`, run, and re-apply with `git -C {wt} apply /tmp/{rnd}-{key}.diff`.

The property (a semantic property users of GEOPHIRES-X rely on):

  id: {pid}
  title: {p['title']}
  statement: {p['statement']}
  holds: {p['quantifier']['text']}
  code it is anchored in: {', '.join(p['anchors']['files'])}

Your task: write ONE change to the source under {wt}/src that BREAKS this property while the code still imports, and the existing test suite still gives the same result as above. It must look like something a maintainer could plausibly commit (a refactoring, an optimisation, a cache, a robustness 'improvement', a new feature, a clean-up) - not an obviously malicious or gratuitous edit - and it must need SOMETHING SPECIFIC to manifest: a particular interleaving of concurrent workers, a crash/fault/failure at a particular point, a multi-step sequence of operations (a history), an unusual but legal input, an unusual environment (working directory, path spelling, clock, hash seed), or two cooperating sites that each look fine alone. Changes that ordinary use (one plain run of an example) would expose at once are NOT wanted.

Suggested focus for you (other people cover other areas): {focus}

Be creative and pick a mechanism different from these, which other people have already used for this property: {USED[pid]}.

Deliverables, all written into {wt}/_seeded/ (create the directory):
  1. patch.diff  - `git -C {wt} diff -- src` of your change (source files only; it must apply with `git apply` to a clean checkout).
  2. demo.py     - a self-contained demonstration, usage `/venv/bin/python demo.py <source tree root>`: it inserts <root>/src at the front of sys.path (and sets PYTHONPATH for any subprocess it starts), asserts the package was imported from there, exercises the property through the real public entry points, and exits 1 (printing what went wrong) if the property is violated, 0 if it holds. It must exit 1 on your changed worktree and 0 on a clean checkout. It must finish in under 3 minutes and use only temporary directories it creates and removes itself. The demo should judge the PROPERTY (as stated above), not the presence of your particular code change.
  3. notes.md    - what the change is, why it is plausible, exactly what is needed for it to manifest (and why ordinary use / the existing tests do not show it), the commands you ran and their results (full-suite summary line with the change; demo exit codes with and without the change).

Before you finish, verify all of this yourself: the full test suite with the change (same summary line and same failing tests as without it), the demo on the changed tree (exit 1) and on the clean tree (exit 0). Leave the worktree WITH your change applied (uncommitted) when you finish. In your final message give a five-line summary: mechanism, what it needs to manifest, test-suite summary line, demo results, files written."""
    open(f'/tmp/agentprompts/{rnd}-{key}.txt', 'w').write(prompt)
    print(key, wt)
