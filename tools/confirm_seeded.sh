#!/bin/bash
# usage: tools/confirm_seeded.sh <sub-agent worktree> <id>     (e.g. /tmp/wt/r12-C20 S-C20-11)
# Copies the sub-agent's deliverables to /verif/seeded/<id>/, then confirms in a FRESH scratch worktree of /repo HEAD that the patch
# applies, the baseline failing set is unchanged with it, and the demonstration exits 1 with it and 0 on /repo.  The scratch worktree is removed.
set -u
SRC=$1; ID=$2
DST=/verif/seeded/$ID
mkdir -p "$DST"
cp "$SRC/_seeded/patch.diff" "$DST/patch.diff"
cp "$SRC/_seeded/demo.py" "$DST/demo.py"
[ -f "$SRC/_seeded/notes.md" ] && cp "$SRC/_seeded/notes.md" "$DST/notes.md"
WT=/tmp/wt/confirm-$ID
git -C /repo worktree remove --force "$WT" 2>/dev/null
git -C /repo worktree add --detach "$WT" HEAD -q || exit 3
if ! git -C "$WT" apply "$DST/patch.diff"; then echo "PATCH DOES NOT APPLY to /repo HEAD"; git -C /repo worktree remove --force "$WT"; exit 4; fi
echo "== tests with the patch"
(cd "$WT" && PYTHONPATH="$WT/src" timeout 1500 /venv/bin/python -m pytest -ra -q -p no:cacheprovider --timeout=900 --continue-on-collection-errors 2>&1 | grep -E "^(FAILED|ERROR)|passed|failed" | sort > /tmp/confirm-$ID.tests)
tail -1 /tmp/confirm-$ID.tests
grep -E "^(FAILED|ERROR)" /tmp/confirm-$ID.tests | sed 's/ - .*//' | sort -u > /tmp/confirm-$ID.failset
if [ ! -f /tmp/baseline.failset ]; then
  (cd /repo && timeout 1500 /venv/bin/python -m pytest -ra -q -p no:cacheprovider --timeout=900 --continue-on-collection-errors 2>&1 | grep -E "^(FAILED|ERROR)" | sed 's/ - .*//' | sort -u > /tmp/baseline.failset; rm -f /repo/-q)
fi
if diff -q /tmp/baseline.failset /tmp/confirm-$ID.failset >/dev/null; then echo "failing set: SAME as baseline"; else echo "failing set: DIFFERENT"; diff /tmp/baseline.failset /tmp/confirm-$ID.failset; fi
echo "== demo on the changed tree"
(cd /tmp && timeout 400 /venv/bin/python "$DST/demo.py" "$WT" > /tmp/confirm-$ID.demo1 2>&1; echo "exit $?"; tail -4 /tmp/confirm-$ID.demo1)
echo "== demo on /repo"
(cd /tmp && timeout 400 /venv/bin/python "$DST/demo.py" /repo > /tmp/confirm-$ID.demo0 2>&1; echo "exit $?"; tail -2 /tmp/confirm-$ID.demo0)
rm -f "$WT/-q" /repo/-q
git -C /repo worktree remove --force "$WT"
