"""Request families for the history engine (histsim).

A request = a template (a configuration family) + 0..2 tweaks (a parameter moved inside its declared range, drawn from
a small discrete table so that the pristine-reference cache gets hits) + optionally one poison line that makes the
request fail.  Whether a request succeeds is never assumed here: the oracle is the outcome of the same content run
alone in a fresh process."""
import os

from . import workloads as WL

REPO = os.environ.get('VERIF_REPO', '/repo')
EX = os.path.join(REPO, 'tests', 'examples')


def _ex(name):
    with open(os.path.join(EX, name), encoding='utf-8') as f:
        return f.read()


def load_templates():
    """-> list of dict(name, kind ('geo'|'hip'), text, cost ('fast'|'slow'))"""
    t = []
    t.append(dict(name='geo_tdp_orc', kind='geo', text=WL.GEO_BASE, cost='fast'))
    t.append(dict(name='geo_sf_sorc', kind='geo', text=WL.GEO_BASE_2, cost='fast'))
    t.append(dict(name='geo_tdp_orc_2seg', kind='geo', cost='fast',
                  text=WL.GEO_BASE + 'Number of Segments, 2\nGradients, 65, 40\nThicknesses, 1.2, 1\n'))
    t.append(dict(name='geo_sf_sorc_3seg', kind='geo', cost='fast',
                  text=WL.GEO_BASE_2 + 'Number of Segments, 3\nGradients, 70, 50, 35\nThicknesses, 1, 1, 1\n'))
    # inputs that say almost nothing and rely on the declared defaults: whatever an earlier run leaves behind in a default
    # object shows here
    t.append(dict(name='geo_minimal_elec', kind='geo', cost='fast',
                  text='Reservoir Model, 4\nReservoir Depth, 2.5\nEnd-Use Option, 1\nPower Plant Type, 1\nPrint Output to Console, 0\n'))
    t.append(dict(name='geo_minimal_heat', kind='geo', cost='fast',
                  text='Reservoir Model, 3\nReservoir Depth, 3\nEnd-Use Option, 2\nPrint Output to Console, 0\n'))
    t.append(dict(name='geo_minimal_2seg', kind='geo', cost='fast',
                  text='Reservoir Model, 4\nReservoir Depth, 3\nNumber of Segments, 2\nThickness 1, 1.5\nEnd-Use Option, 1\nPower Plant Type, 2\nPrint Output to Console, 0\n'))
    # the two reservoir models whose examples are slow (multiple parallel fractures, linear heat sweep), cut down to ten yearly
    # time steps so that the quick tier reaches these families in every few histories
    t.append(dict(name='geo_mpf_small', kind='geo', cost='fast',
                  text=WL.GEO_BASE_2 + 'Reservoir Model, 1\nPlant Lifetime, 10\nTime steps per year, 1\n'))
    t.append(dict(name='geo_lhs_small', kind='geo', cost='fast',
                  text=WL.GEO_BASE_2 + 'Reservoir Model, 2\nPlant Lifetime, 10\nTime steps per year, 1\n'))
    for n, cost in (('example4.txt', 'fast'), ('example13.txt', 'fast'), ('example5.txt', 'fast'), ('example3.txt', 'fast'),
                    ('example10_HP.txt', 'fast'), ('example11_AC.txt', 'fast'), ('S-DAC-GT.txt', 'fast'), ('example2.txt', 'fast'),
                    ('MC_Fervo_Norbeck_Latimer_2024.txt', 'fast'),
                    ('example1.txt', 'slow'), ('example1_addons.txt', 'slow'), ('example8.txt', 'slow'), ('example12_DH.txt', 'slow'),
                    ('example_multiple_gradients.txt', 'slow'), ('example_overpressure.txt', 'slow'), ('example_ITC.txt', 'slow'),
                    ('example_SHR-2.txt', 'slow'), ('Fervo_Norbeck_Latimer_2023.txt', 'slow'), ('example9.txt', 'slow')):
        try:
            txt = _ex(n)
        except OSError:
            continue
        # the console echo of the report is irrelevant to every claimed property and costs time
        txt += '\nPrint Output to Console, 0\n'
        t.append(dict(name=n[:-4], kind='geo', text=txt, cost=cost))
    try:
        t.append(dict(name='dh_example12', kind='geo', cost='dh', text=_ex('example12_DH.txt') + '\nPrint Output to Console, 0\n'))
    except OSError:
        pass
    t.append(dict(name='hip_a', kind='hip', text=WL.HIP_BASE, cost='fast'))
    t.append(dict(name='hip_b', kind='hip', text=WL.HIP_BASE_2, cost='fast'))
    for x in t:
        x['numeric'] = numeric_lines(x['text'])
        x['multi'] = multi_lines(x['text'])
    return t


def multi_lines(text):
    """[(parameter name, [values])] for list-valued lines (two or more comma-separated numbers); the last occurrence wins"""
    out = {}
    for ln in text.split('\n'):
        s = ln.split('--')[0].strip()
        if not s or s.startswith('#'):
            continue
        parts = [p.strip() for p in s.split(',')]
        vals = []
        for p in parts[1:]:
            if p == '':
                continue
            try:
                vals.append(float(p))
            except ValueError:
                vals = []
                break
        if len(vals) >= 2:
            out[parts[0]] = vals
    return sorted(out.items())


def numeric_lines(text):
    """[(parameter name, value)] for the lines of an input file whose value is a plain number"""
    out = []
    seen = set()
    for ln in text.split('\n'):
        s = ln.strip()
        if not s or s.startswith('#') or s.startswith('-'):
            continue
        parts = s.split(',')
        if len(parts) < 2:
            continue
        name, val = parts[0].strip(), parts[1].split('--')[0].strip()
        try:
            v = float(val)
        except ValueError:
            continue
        if name in seen or name.startswith('Print Output'):
            continue
        seen.add(name)
        out.append((name, v))
    return out


def declared_ranges():
    """parameter name -> (min, max) as declared by the simulators (float Min/Max, first/last of an int AllowableRange)"""
    import sys
    out = {}
    ints = []
    argv = sys.argv
    try:
        sys.argv = ['']
        import geophires_x.Model as M
        try:
            m = M.Model(enable_geophires_logging_config=False, input_file=os.devnull)
            objs = [m.reserv, m.wellbores, m.surfaceplant, m.economics]
        except Exception:  # noqa: BLE001
            objs = []
        for o in objs:
            for name, p in getattr(o, 'ParameterDict', {}).items():
                lo, hi = getattr(p, 'Min', None), getattr(p, 'Max', None)
                ar = getattr(p, 'AllowableRange', None)
                if isinstance(lo, (int, float)) and isinstance(hi, (int, float)):
                    out[name] = (float(lo), float(hi))
                elif ar and all(isinstance(a, int) for a in (ar[0], ar[-1])) and len(ar) > 3:
                    out[name] = (float(min(ar)), float(max(ar)))
                    ints.append(name)
    finally:
        sys.argv = argv
    # (excluded: parameters whose edges select very slow simulators - SBT, SUTRA - or multiply the run time a hundredfold)
    out['__int__'] = sorted(set(ints) - {'Reservoir Model', 'Time steps per year', 'Closed-loop Configuration', 'Well Geometry Configuration'})
    return out


# (the last factor gives a value with seven significant digits: more than any column of the report prints)
def provided_sensitive():
    """[(parameter name, default value as text)] for the numeric parameters whose `.Provided` flag some code branches on (found by
    scanning the simulator's sources for `<attribute>.Provided` and resolving the attribute on a model): for these, "the
    file states the value" and "the file is silent" are different requests even when the stated value is the default"""
    import glob
    import re
    import sys
    attrs = set()
    for f in sorted(glob.glob(os.path.join(REPO, 'src', 'geophires_x', '*.py'))):
        try:
            with open(f, encoding='utf-8') as fh:
                txt = fh.read()
        except OSError:
            continue
        for m in re.finditer(r'(\w+)\.Provided\b(?!\s*=(?!=))', txt):
            attrs.add(m.group(1))
    out = {}
    argv = sys.argv
    try:
        sys.argv = ['']
        import geophires_x.Model as M
        try:
            m = M.Model(enable_geophires_logging_config=False, input_file=os.devnull)
            objs = [m.reserv, m.wellbores, m.surfaceplant, m.economics]
        except Exception:  # noqa: BLE001
            objs = []
        for o in objs:
            for a in sorted(attrs):
                p = getattr(o, a, None)
                name, dv = getattr(p, 'Name', None), getattr(p, 'DefaultValue', None)
                lo, hi = getattr(p, 'Min', None), getattr(p, 'Max', None)
                ar = getattr(p, 'AllowableRange', None)
                legal = (isinstance(lo, (int, float)) and isinstance(hi, (int, float)) and lo <= dv <= hi) if isinstance(dv, (int, float)) and not ar \
                    else (bool(ar) and dv in ar)
                # (defaults outside the declared range are "not set" sentinels such as -1: stating them is an input error)
                if legal and isinstance(name, str) and not isinstance(dv, bool) and name in getattr(o, 'ParameterDict', {}):
                    out[name] = repr(float(dv)) if isinstance(dv, float) else str(dv)
    finally:
        sys.argv = argv
    return sorted(out.items())


def add_default_tweaks(items):
    """two entries for GEO_TWEAKS: fixed subsets of `items` spelled out with their default values, and the same with one of them
    moved off its default (the provided/not-provided logic mostly arbitrates between two parameters).  The first line of
    each value is a comment line of the input format, so that one table entry can carry different parameter sets."""
    if not items or any(t[0].startswith('# explicit defaults') for t in GEO_TWEAKS):
        return
    subsets = [items, items[0::2], items[1::2], [x for x in items if 'Overpressure' not in x[0]], items[:len(items) // 2], items[len(items) // 2:]]
    vals = []
    for k, sub in enumerate(subsets):
        if sub:
            vals.append(f'subset {k}' + ''.join(f'\n{n}, {v}' for n, v in sub))
    GEO_TWEAKS.append(('# explicit defaults', vals))
    vals2 = []
    quiet = [x for x in items if 'Overpressure' not in x[0]]
    for j, (n, v) in enumerate(quiet[:12]):
        try:
            moved = f'{float(v) * 1.5:.6g}' if float(v) != 0 else '1.5'
        except ValueError:
            continue
        vals2.append(f'and {n} moved\n{n}, {moved}' + ''.join(f'\n{n2}, {v2}' for n2, v2 in quiet if n2 != n))
    if vals2:
        GEO_TWEAKS.append(('# explicit defaults, one moved', vals2))


DH_TWEAKS = []


def add_dh_tweaks(temperature_file):
    if DH_TWEAKS:
        return
    def opt2(div, units):
        return (f'2\nTemperature File Name, {temperature_file}\nTemperature Data Column Number, 2\nNumber of Housing Units, {units}\n'
                f'US Census Division, {div}\nConstant Anchor Demand, 2')
    DH_TWEAKS.append(('District Heating Demand Option', [opt2(7, 5000), opt2(3, 5000), opt2(9, 5000), opt2(1, 5000), opt2(5, 4000), opt2(7, 4000)]))
    DH_TWEAKS.append(('District Heating Demand Option', [opt2(7, 5000), opt2(3, 5000), opt2(5, 5000)]))
    DH_TWEAKS.append(('Peaking Boiler Efficiency', ['0.8', '0.9']))


def add_profile_tweaks(profile_dir):
    """requests that name a user-provided temperature profile by absolute path (reservoir model 5)"""
    if any(t[0] == 'Reservoir Model' and 'Reservoir Output File Name' in t[1][0] for t in GEO_TWEAKS):
        return
    GEO_TWEAKS.append(('Reservoir Model', [f'5\nReservoir Output File Name, {os.path.join(profile_dir, n)}'
                                           for n in ('restart_twice.txt', 'constant_first_column.txt', 'same_rows_repeated.txt')]))


FACTORS = ['0.9', '1.1', '0.5', '2', 'min', 'max', '1.0123457']


# Parameters that are never moved.  With the demand column number at 1 (given as `1`, or as `1.8`, which the reader truncates) the
# district-heating plant reads the HOUR INDEX of the demand file as its hourly demand: an int64 array of 8760 elements that
# `jsons.dumps` then crawls object by object for many minutes (a request that validates and whose run time is out of all five
# properties' scope).  The choices are drawn as for any other parameter and the tweak is dropped afterwards, so every other
# history decodes exactly as before.
NEVER_MOVED = {'District Heating Demand Data Column Number'}


def neighbour_tweak(cs, template, ranges):
    tw = _neighbour_tweak(cs, template, ranges)
    return None if tw and tw[0] in NEVER_MOVED else tw


def _neighbour_tweak(cs, template, ranges):
    """one parameter of the template moved: scaled, put on the edge of its declared range, or - one time in three - an
    integer-valued parameter (these drive table lengths, column widths and option switches) put on an edge of its
    allowable range whether or not the template mentions it"""
    nums = template.get('numeric') or []
    ints = ranges.get('__int__') or []
    multi = template.get('multi') or []
    if multi and cs.choose(3, 'nmulti') == 2:
        # move one element in the TAIL of a list-valued line (the head stays as it is)
        name, vals = multi[cs.choose(len(multi), 'nmline')]
        j = 1 + cs.choose(len(vals) - 1, 'nmidx')
        f = [0.9, 1.1, 0.5][cs.choose(3, 'nmfac')]
        vals = list(vals)
        vals[j] = float(f'{vals[j] * f:.6g}')
        return (name, ', '.join(f'{v:.6g}' for v in vals))
    if template.get('kind') == 'geo' and ints and cs.choose(3, 'nkind') == 2:
        name = ints[cs.choose(len(ints), 'nint')]
        lo, hi = ranges[name]
        which = cs.choose(4, 'nedge')
        v = [hi, lo, hi - 1, lo + 1][which]
        return (name, f'{v:.6g}')
    if not nums:
        return None
    name, v = nums[cs.choose(len(nums), 'nparam')]
    f = FACTORS[cs.choose(len(FACTORS), 'nfactor')]
    if f in ('min', 'max'):
        r = ranges.get(name)
        if r is None:
            f = '1.1'
        else:
            return (name, f'{r[0] if f == "min" else r[1]:.6g}')
    return (name, f'{v * float(f):.7g}' if len(f) > 4 else f'{v * float(f):.6g}')


GEO_TWEAKS = [
    ('Plant Lifetime', ['25', '35']),
    ('Ambient Temperature', ['10', '20']),
    ('Surface Temperature', ['12', '18']),
    ('Utilization Factor', ['0.8', '0.85']),
    ('Circulation Pump Efficiency', ['0.7', '0.85']),
    ('Inflation Rate', ['0.02', '0.03']),
    ('Injection Temperature', ['65', '75']),
    ('Production Flow Rate per Well', ['45', '55']),
    # values with more significant digits than the report prints for them (the same quantity printed in two sections of the
    # report, or printed and re-read, goes through two roundings)
    ('Gradient 1', ['43.2175', '51.37254']),
    ('Reservoir Depth', ['2.718282', '3.141593']),
    ('Injection Temperature', ['63.33333']),
    ('Production Flow Rate per Well', ['47.61905']),
    # optional sections of the report switched on (alone, and on top of whatever sections the template already has: the
    # sections are written by separate writers one after the other)
    ('Do AddOn Calculations', ['True\nAddOn Nickname 1, Desalinization\nAddOn CAPEX 1, 10\nAddOn OPEX 1, 0.1\nAddOn Electricity Gained 1, -100\n'
                               'AddOn Heat Gained 1, 0.0\nAddOn Profit Gained 1, 0.05',
                               'True\nAddOn Nickname 1, A\nAddOn CAPEX 1, 10\nAddOn OPEX 1, 0.1\nAddOn Electricity Gained 1, -100\nAddOn Heat Gained 1, 0.0\n'
                               'AddOn Profit Gained 1, 0.05\nDo S-DAC-GT Calculations, True',
                               'True\nAddOn Nickname 1, A\nAddOn CAPEX 1, 10\nAddOn OPEX 1, 0.1\nAddOn Electricity Gained 1, 2600\nAddOn Heat Gained 1, 0.0\n'
                               'AddOn Profit Gained 1, 0.5\nDo Carbon Price Calculations, True\nStarting Carbon Credit Value, 0.015\n'
                               'Ending Carbon Credit Value, 0.1\nCarbon Escalation Start Year, 5\nCarbon Escalation Rate Per Year, 0.01']),
    ('Do S-DAC-GT Calculations', ['True']),
    ('Do Carbon Price Calculations', ['True\nStarting Carbon Credit Value, 0.015\nEnding Carbon Credit Value, 0.1\nCarbon Escalation Start Year, 5\n'
                                      'Carbon Escalation Rate Per Year, 0.01',
                                      'True\nStarting Carbon Credit Value, 0.015\nEnding Carbon Credit Value, 0.1\nCarbon Escalation Start Year, 5\n'
                                      'Carbon Escalation Rate Per Year, 0.01\nDo S-DAC-GT Calculations, True']),
    # zero costs: table rows and fields that print as 0.00 / -0.00 throughout
    ('Total Capital Cost', ['0', '0\nConstruction Years, 2', '0.001']),
    ('Total O&M Cost', ['0']),
    # optional behaviours switched on by extra lines
    ('Units:Bottom-hole temperature', ['degF', 'degK']),
    ('Units:Net Electricity Production', ['kW']),
    ('Units:Produced Temperature', ['degF']),
    ('Units:Pumping Power', ['kW']),
    # ... for quantities that are columns of the revenue & cash-flow table
    # a heat price that falls over the project life (legal; takes a warning path of its own) - on the heat templates
    ('Starting Heat Sale Price', ['0.05\nEnding Heat Sale Price, 0.03', '0.04\nEnding Heat Sale Price, 0.025\nEnd-Use Option, 2']),
    # whole numbers with seven and more significant digits (printed with all-zero decimals)
    ('Fracture Shape', ['1\nFracture Area, 2345678', '4\nFracture Height, 1111\nFracture Width, 1111', '1\nFracture Area, 1234321\nReservoir Model, 1']),
    # lengths whose preferred unit is the meter, stated in kilometers (the other direction of 'Reservoir Depth, 2800 m')
    ('Fracture Height', ['0.6 kilometer\nFracture Shape, 4\nFracture Width, 0.5 kilometer', '0.45 kilometer\nFracture Shape, 3']),
    ('Injection Reservoir Depth', ['2.5 kilometer\nOverpressure Percentage, 130.0\nOverpressure Depletion Rate, 5.0\nInjection Reservoir Temperature, 80\nInjection Reservoir Inflation Rate, 100']),
    ('Units:Total O&M Cost', ['KUSD/yr']),
    ('Units:Annual Revenue from Electricity Production', ['KUSD/yr']),
    ('Units:Electricity Sale Price Model', ['USD/kWh']),
    # very large and very small projects: values that overflow the column widths of the report, negative economics
    ('Number of Production Wells', ['200\nNumber of Injection Wells, 200', '200\nNumber of Injection Wells, 200\nReservoir Depth, 5',
                                    '1\nNumber of Injection Wells, 1\nProduction Flow Rate per Well, 10']),
    # list-valued parameters: requests that differ only in the tail of a multi-valued line
    ('Number of Segments', ['2\nGradients, 50, 40\nThicknesses, 1.5, 1', '2\nGradients, 50, 25\nThicknesses, 1.5, 1',
                            '2\nGradients, 50, 25\nThicknesses, 1.2, 1', '3\nGradients, 50, 40, 30\nThicknesses, 1, 0.5, 1',
                            '2\nGradients, 51.3725, 38.4145\nThicknesses, 1.23456, 1']),
    # values written with an explicit unit other than the preferred one (converted while the input is read: whatever is
    # converted in place and shared with a later run is converted twice)
    ('Injection Temperature', ['120 degF', '343.15 degK']),
    ('Reservoir Depth', ['9842.52 ft', '2800 m']),
    ('Ambient Temperature', ['59 degF']),
    ('Surface Temperature', ['59 degF\nInjection Temperature, 150 degF']),
    ('Production Well Diameter', ['0.2 m', '20 cm']),
    ('Maximum Temperature', ['752 degF']),
    ('Production Flow Rate per Well', ['50 kg/sec\nReservoir Depth, 3.2 km']),
    # round, very large values: a writer that switches notation when a number outgrows its column prints them as '1e+10'
    ('Reservoir Volume Option', ['4\nReservoir Volume, 1e10', '4\nReservoir Volume, 3e11', '4\nReservoir Volume, 1e12',
                                 '4\nReservoir Volume, 2e10\nReservoir Heat Capacity, 1000']),
    # an overpressured reservoir: one more section and one more table in the report
    ('Overpressure Percentage', ['155.0\nOverpressure Depletion Rate, 10.0\nInjection Reservoir Temperature, 101.1\nInjection Reservoir Depth, 1001.1\n'
                                 'Injection Reservoir Inflation Rate, 202.2',
                                 '130.0\nOverpressure Depletion Rate, 5.0\nInjection Reservoir Temperature, 80\nInjection Reservoir Depth, 1500\n'
                                 'Injection Reservoir Inflation Rate, 100']),
]

HIP_TWEAKS = [
    ('Reservoir Temperature', ['200', '300']),
    ('Rejection Temperature', ['40', '70']),
    ('Reservoir Porosity', ['12', '20']),
    ('Reservoir Area', ['60', '100']),
    ('Reservoir Life Cycle', ['20', '35']),
    # optional inputs that change a derived quantity (pressure) without touching the temperatures
    ('Reservoir Depth', ['2', '5']),
    ('Reservoir Pressure', ['30', '80']),
    ('Recoverable Fluid Factor', ['0.4', '0.6']),
    ('Reservoir Temperature', ['392 degF', '473.15 degK']),
    ('Reservoir Thickness', ['820 ft', '0.3 km']),
]

GEO_POISON = [
    'Utilization Factor, 1.5',              # outside [0.1, 1.0]
    'Reservoir Model, 99',                  # not a member of the option list
    'Plant Lifetime, abc',                  # unparsable number
    'Number of Production Wells, 250',      # outside the allowable range of an int parameter
    'Gradient 1, 50 degC/parsec',           # unit that cannot be converted
    'Reservoir Depth, -3',                  # negative depth
    'End-Use Option, 77',                   # non-member option
    'Gradient 1, 2\nReservoir Depth, 0.5',  # passes validation, fails inside Calculate (negative electricity production)
    'Reservoir Model, 5\nReservoir Output File Name, /nonexistent/profile.txt',   # aborts with a bare sys.exit()
    'Reservoir Model, 6',                   # TOUGH2 executable missing: aborts with a bare sys.exit()
    'Reservoir Volume Option, 3\nNumber of Fractures, 1',     # accepted, then a fracture-based reservoir model divides by zero
]

# failures INSIDE the calculation (the input is accepted, a model aborts part-way): reservoir stage, surface-plant stage,
# bare sys.exit() of a reservoir model
GEO_CALC_POISON = [
    'Reservoir Volume Option, 3\nNumber of Fractures, 1',     # fracture-based reservoir models divide by (fractures - 1)
    'Gradient 1, 2\nReservoir Depth, 0.5',
    'Reservoir Model, 5\nReservoir Output File Name, /nonexistent/profile.txt',
    'Reservoir Volume Option, 3\nNumber of Fractures, 1\nFracture Shape, 3',
]

HIP_POISON = [
    'Reservoir Porosity, 150',
    'Reservoir Temperature, 20',
    'Reservoir Life Cycle, 500',
    'Reservoir Area, abc',
]
