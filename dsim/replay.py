"""./check replay <file> and the digest helper used by the determinism self-test"""
import json
import os

from . import driver as D


def _scratch_root():
    from . import kernel as K_
    return K_.scratch_root()


def engine(name):
    if name == 'mcsim':
        from . import mcsim
        return mcsim
    from . import histsim
    return histsim


def main(path):
    with open(path) as f:
        doc = json.load(f)
    md = doc.get('machinery_digest')
    if md and md != D.machinery_digest():
        print(f'note: this replay file was written by another version of the machinery ({md}, now {D.machinery_digest()}): '
              'the generator tables may have changed, in which case the choices decode to a different run')
    if doc.get('repo_head') and doc['repo_head'] != D.repo_head():
        print(f"note: written against tree {doc.get('repo_path', '?')} at {doc['repo_head'][:12]}, replaying against {D.REPO} at {D.repo_head()[:12]}")
    if doc.get('pooled'):
        print(f"pooled statistical finding; re-run: {doc.get('replay_cmd')}")
        return 2
    eng = engine(doc['engine'])
    payload = dict(doc.get('extra') or {})
    payload.update({'seed': doc['seed'], 'tier': doc.get('tier') or 'quick', 'force': doc.get('force'),
                    'choices': doc['choices'], 'want_log': 60})
    if doc['engine'] == 'cli_matrix':
        print(f"enumerated subprocess case; re-run: ./check {doc['property']} quick   (case {doc.get('case')})")
        return 2
    b = D.Batch(eng, doc['property'], payload['tier'])
    os.environ['VERIF_JOBS'] = '1'
    if doc['engine'] == 'histsim' and not os.environ.get('DSIM_REFDIR'):
        import tempfile
        os.environ['DSIM_REFDIR'] = tempfile.mkdtemp(prefix='dsim-ref-', dir=_scratch_root())
        import atexit
        import shutil
        atexit.register(shutil.rmtree, os.environ['DSIM_REFDIR'], True)
    b.open()
    try:
        rec = None
        for _, _, r in b.run([payload], 600):
            rec = r
    finally:
        b.close()
    if rec is None or rec.get('harness_error'):
        print('HARNESS-ERROR', rec)
        return 2
    target = {'property': doc['property'], 'cls': doc['expected']['cls'], 'cause': doc['expected']['cause']}
    v = D.same_violation(rec, target)
    print(f"replay {path}: seed={doc['seed']} events={rec.get('events')} digest={rec.get('digest')}")
    for e in (rec.get('log') or [])[-25:]:
        print('   ', e)
    for x in rec.get('violations') or []:
        print(f"  violation {x['property']} {x['cls']}/{x['cause']}: {x['detail']}")
    if v is None:
        print('NOT-REPRODUCED')
        return 0
    same_digest = doc.get('digest') in (None, rec.get('digest'))
    if not same_digest:
        print(f"HARNESS-ERROR nondeterminism: the violation reproduces but the event log differs ({rec.get('digest')} != {doc.get('digest')})")
        return 2
    print(f"REPRODUCED property={doc['property']} {v['cls']}/{v['cause']} digest_match={same_digest}")
    print(f"VIOLATION property={doc['property']} replay={path}")
    return 1


def digests(engine_name, tier, seeds):
    import shutil
    import tempfile
    eng = engine(engine_name)
    refdir = None
    if engine_name == 'histsim' and not os.environ.get('DSIM_REFDIR_KEEP'):
        refdir = tempfile.mkdtemp(prefix='dsim-ref-', dir=_scratch_root())
        os.environ['DSIM_REFDIR'] = refdir
    b = D.Batch(eng, '-', tier).open()
    out = {}
    try:
        extra = {'parse_orders': 4 if tier == 'quick' else 16} if engine_name == 'histsim' else {}
        for _, pl, rec in b.run([dict({'seed': s, 'tier': tier}, **extra) for s in seeds], 600):
            if engine_name == 'histsim':
                out[str(pl['seed'])] = [rec.get('digest'), rec.get('result_digest')]
            else:
                out[str(pl['seed'])] = rec.get('digest')
    finally:
        b.close()
        if refdir:
            shutil.rmtree(refdir, ignore_errors=True)
    print(json.dumps(out))
    return 0
