"""ChoiceSource: the only origin of nondeterminism in a simulated run.

record mode : every choice is drawn from random.Random(seed) and appended to .trace
replay mode : choices are taken from a stored list; when the list is exhausted or a stored
              value is out of range the "simplest" value 0 is used (this is what lets the
              shrinker delete and zero entries freely).

Nothing in here reads a clock, os.urandom or the hash seed.  Logging never calls choose().
"""
import random


class ChoiceSource:
    __slots__ = ('seed', 'rng', 'replay', 'pos', 'trace', 'labels', 'keep_labels')

    def __init__(self, seed=0, replay=None, keep_labels=False):
        self.seed = int(seed)
        self.rng = random.Random(self.seed)
        self.replay = list(replay) if replay is not None else None
        self.pos = 0
        self.trace = []
        self.keep_labels = keep_labels
        self.labels = []

    def choose(self, n, label=''):
        """integer in [0, n); 0 is always the simplest alternative"""
        if n <= 1:
            v = 0
        elif self.replay is not None:
            if self.pos < len(self.replay):
                v = self.replay[self.pos]
                if not isinstance(v, int) or v < 0 or v >= n:
                    v = 0
            else:
                v = 0
        else:
            v = self.rng.randrange(n)
        if n > 1:
            self.pos += 1
            self.trace.append(v)
            if self.keep_labels:
                self.labels.append(label)
        return v

    def coin(self, num, den, label=''):
        """True with probability num/den; False (0) is the simplest outcome"""
        if num <= 0:
            return False
        return self.choose(den, label) >= den - num

    def pick(self, seq, label=''):
        return seq[self.choose(len(seq), label)]

    def weighted(self, weights, label=''):
        """index drawn with the given integer weights; index 0 is simplest"""
        tot = sum(weights)
        v = self.choose(tot, label)
        # map so that v == 0 gives index 0
        acc = 0
        for i, w in enumerate(weights):
            acc += w
            if v < acc:
                return i
        return len(weights) - 1

    def subset(self, items, num, den, label=''):
        return [x for x in items if self.coin(num, den, label)]
