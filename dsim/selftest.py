"""./check selftest [mutants [name...]] [determinism]

Sensitivity self-test: each mutant is a small edit of a scratch copy of the repository (under /dev/shm, removed
afterwards) that still imports and passes the baseline tests; the named check must report a violation of the expected
class within a quick-sized budget.  Not part of the per-change path."""
import json
import os
import shutil
import subprocess
import sys
import time

from . import driver as D

REPO = os.environ.get('VERIF_REPO', '/repo')

MC = 'src/geophires_monte_carlo/MC_GeoPHIRES3.py'
CL = 'src/geophires_x_client/__init__.py'
G3 = 'src/geophires_x/GEOPHIRESv3.py'
MAIN = 'src/geophires_x/__main__.py'
RES = 'src/geophires_x_client/geophires_x_result.py'
OUT = 'src/geophires_x/Outputs.py'

# name -> (check id, expected violation classes, [(file, old, new)], note)
MUTANTS = {
    'revert_F3_no_worker_reseed': ('C13', {'dup_sample'}, [
        (MC, 'ProcessPoolExecutor(initializer=np.random.seed)', 'ProcessPoolExecutor()')], 'forked workers replay the parent stream'),
    'seed_workers_with_wall_clock': ('C13', {'dup_sample'}, [
        (MC, 'ProcessPoolExecutor(initializer=np.random.seed)', 'ProcessPoolExecutor(initializer=_seed_from_clock)'),
        (MC, 'def work_package(pass_list: list):', 'def _seed_from_clock():\n    np.random.seed(int(time.time()))\n\n\ndef work_package(pass_list: list):')],
        'all workers start within the same second'),
    'seed_in_parent_only': ('C13', {'dup_sample'}, [
        (MC, 'ProcessPoolExecutor(initializer=np.random.seed)', 'ProcessPoolExecutor()'),
        (MC, '    # build the args list\n', '    np.random.seed()\n    # build the args list\n')], 'fork copies whatever the parent seeded'),
    'seed_from_module_level_task_counter': ('C13', {'dup_sample'}, [
        (MC, 'ProcessPoolExecutor(initializer=np.random.seed)', 'ProcessPoolExecutor()'),
        (MC, 'def work_package(pass_list: list):', '_tasks_done_by_this_process = 0\n\n\ndef work_package(pass_list: list):'),
        (MC, "    log = _get_logger()\n\n    print('#', end='')", "    log = _get_logger()\n    global _tasks_done_by_this_process\n    _tasks_done_by_this_process += 1\n    np.random.seed(_tasks_done_by_this_process)\n\n    print('#', end='')")],
        'every worker process counts from 1: needs per-process module-level variables in the simulation'),
    'one_iteration_short': ('C13', {'iteration_count'}, [
        (MC, 'for _ in range(iterations):', 'for _ in range(iterations - 1):')], 'off by one'),
    'normal_arguments_swapped': ('C13', {'wrong_distribution', 'out_of_support'}, [
        (MC, 'np.random.normal(float(input_value[2]), float(input_value[3]))', 'np.random.normal(float(input_value[3]), float(input_value[2]))')],
        'normal(std, mean)'),
    'triangular_mode_and_right_swapped': ('C13', {'wrong_distribution', 'out_of_support', 'liveness'}, [
        (MC, 'np.random.triangular(float(input_value[2]), float(input_value[3]), float(input_value[4]))',
         'np.random.triangular(float(input_value[2]), (float(input_value[2]) + float(input_value[4])) / 2, float(input_value[4]))')],
        'mode replaced by the midpoint'),
    'uniform_replaced_by_normal': ('C13', {'out_of_support', 'wrong_distribution'}, [
        (MC, 'np.random.uniform(float(input_value[2]), float(input_value[3]))', 'np.random.normal((float(input_value[2]) + float(input_value[3])) / 2, (float(input_value[3]) - float(input_value[2])) / 4)')],
        'samples leave [a, b)'),
    'rows_dropped_when_future_slow': ('C13', {'lost_row'}, [
        (MC, 'for future in concurrent.futures.as_completed(futures):', 'for future in concurrent.futures.as_completed(futures[: max(1, len(futures) - 1)]):')],
        'last submitted iteration never collected'),
    'resume_interrupted_result_file': ('C13', {'extra_row', 'lost_row'}, [
        (MC, "    with open(output_file, 'w') as f:\n        f.write(s)\n",
         "    interrupted = False\n    if os.path.exists(output_file):\n        with open(output_file) as f:\n            old = f.read()\n"
         "        interrupted = old.startswith(s) and 'minimum:' not in old\n"
         "    if not interrupted:\n        with open(output_file, 'w') as f:\n            f.write(s)\n")],
        'a result file left by a killed run (header, some rows, no summary) is continued instead of being started afresh: needs crash + restart'),
    'revert_F4_workers_append_under_pylocker': ('C13', {'lost_row'}, 'git:fd92d50', 'lock overwrite + os._exit drops the buffered row'),
    'stat_mean_is_median': ('C14', {'stats_mismatch'}, [
        (MC, 'means = np.nanmean(results, 0)', 'means = np.nanmedian(results, 0)')], 'wrong statistic stored as mean'),
    'std_sample_instead_of_population': ('C14', {'stats_mismatch'}, [
        (MC, 'std = np.nanstd(results, 0)', 'std = np.nanstd(results, 0, ddof=1) if len(results) > 1 else np.nanstd(results, 0)')], 'ddof=1'),
    'json_min_max_swapped': ('C14', {'stats_mismatch', 'json_text_mismatch'}, [
        (MC, "outputs_result[output]['minimum'] = mins[i]\n            outputs_result[output]['maximum'] = maxs[i]",
         "outputs_result[output]['minimum'] = maxs[i]\n            outputs_result[output]['maximum'] = mins[i]")], 'key mix-up'),
    'shared_temp_file_name': ('C14', {'row_not_reproducible', 'row_malformed'}, [
        (MC, "tmp_input_file: str = str(Path(tempfile.gettempdir(), f'{uuid.uuid4()!s}.txt'))", "tmp_input_file: str = str(Path(tempfile.gettempdir(), 'mc_iteration.txt'))")],
        'all workers share one scratch file'),
    'outputs_in_reverse_order': ('C14', {'row_not_reproducible', 'stats_mismatch'}, [
        (MC, '        for out in local_outputs:\n            s1 = get_output(out)', '        for out in reversed(local_outputs):\n            s1 = get_output(out)')], 'columns not in header order'),
    'row_written_in_two_flushes_by_workers': ('C14', {'row_torn', 'row_malformed'}, [
        (MC, '    # the row is appended to the results file by the parent process (see main), which is the only writer of that file\n    return result_s\n',
         "    with open(output_file, 'a') as f:\n        half = len(result_s) // 2\n        f.write(result_s[:half])\n        f.flush()\n        f.write(result_s[half:])\n    return ''\n")],
        'concurrent appends in two syscalls'),
    'hip_result_file_numbered_by_class_level_counter': ('C14', {'row_not_reproducible', 'row_malformed', 'failure_leak', 'stats_mismatch'}, [
        ('src/hip_ra/__init__.py', "class HipRaInputParameters:\n", "class HipRaInputParameters:\n    _runs = 0\n"),
        ('src/hip_ra/__init__.py', "            tempfile.gettempdir(), f'hip-ra-result_{self._input_file_path.stem}_{uuid.uuid1()!s}.out'\n",
         "            tempfile.gettempdir(), f'hip-ra-result_{HipRaInputParameters._runs}.out'\n"),
        ('src/hip_ra/__init__.py', "        self._input_file_path = Path(file_path_or_params_dict)\n",
         "        self._input_file_path = Path(file_path_or_params_dict)\n        HipRaInputParameters._runs += 1\n")],
        'every forked worker counts from the value the parent had: needs per-process CLASS attributes in the simulation'),
    'thread_pool_instead_of_process_pool': ('C14', {'row_not_reproducible', 'row_malformed', 'failure_leak'}, [
        (MC, 'concurrent.futures.ProcessPoolExecutor(initializer=np.random.seed)', 'concurrent.futures.ThreadPoolExecutor()')],
        'threads share cwd and sys.argv, which every run rewrites'),
    'revert_F1_no_finally': ('C08', {'ambient_cwd', 'ambient_argv'}, 'git:33bdf98', 'client leaves cwd/argv dirty after failure'),
    'revert_F2_cache_by_path': ('C08', {'stale_result'}, 'git:34d846b', 'stale cached result after rewrite'),
    'restore_only_on_exception_subclass': ('C08', {'ambient_cwd', 'ambient_argv'}, [
        (CL, "        finally:\n            # Undo Geophires internal global settings changes (also when the run fails)\n            sys.argv = stash_sys_argv\n            os.chdir(stash_cwd)\n",
         "\n        # Undo Geophires internal global settings changes\n        sys.argv = stash_sys_argv\n        os.chdir(stash_cwd)\n"),
        (CL, "        except Exception as e:\n            raise RuntimeError(f'GEOPHIRES encountered an exception: {e!s}') from e",
         "        except Exception as e:\n            sys.argv = stash_sys_argv\n            os.chdir(stash_cwd)\n            raise RuntimeError(f'GEOPHIRES encountered an exception: {e!s}') from e")],
        'SystemExit path (and cancellation) skips the restore'),
    'revert_F5_json_path_replace': ('C20', {'missing_json', 'exit_status'}, 'git:22e6eea', 'JSON path mangled for repeated / suffix-less names'),
    'revert_F6_parser_drops_inf': ('C10', {'parse_mismatch'}, 'git:b305b60', "report cell printed as 'inf' comes back as None"),
    'revert_F8_hash_placeholder_prefix_match': ('C13', {'wrong_distribution'}, 'git:a461d9d', "'#' resolved against 'Reservoir Volume Option'"),
    'revert_F9_thousands_separators': ('C14', {'row_malformed', 'stats_mismatch'}, 'git:31af434', 'value with separators tears the row'),
    'revert_F10_missing_output_skipped': ('C14', {'row_malformed'}, 'git:fc44f1f', 'column dropped when the report lacks an output'),
    'revert_F11_json_addons_override': ('C10', {'json_mismatch'}, 'git:389d0cd', 'add-ons dictionary merged over the economics results in the JSON'),
    'json_dump_of_reservoir_outputs_memoised_by_key_set': ('C08', {'history_dependent_result', 'stale_result'}, [
        (G3, 'def main(enable_geophires_logging_config=True):', '_JSON_MEMO = {}\n\n\ndef main(enable_geophires_logging_config=True):'),
        (G3, "    json_resrv = jsons.dumps(model.reserv.OutputParameterDict, indent=4, sort_keys=True, supress_warnings=True)",
         "    json_resrv = _JSON_MEMO.setdefault(tuple(sorted(model.reserv.OutputParameterDict)),\n"
         "                                       jsons.dumps(model.reserv.OutputParameterDict, indent=4, sort_keys=True, supress_warnings=True))")],
        'the JSON next to the second report of a process carries the reservoir results of the first'),
    'report_prints_vir_on_the_moic_line': ('C10', {'json_mismatch'}, [
        (OUT, '{model.economics.ProjectMOIC.value:10.2f}', '{model.economics.ProjectVIR.value:10.2f}')],
        'report line wired to another variable than the JSON entry of the same name'),
    'revert_F7_cli_exit_0_on_bare_sys_exit': ('C20', {'exit_status'}, 'git:9802755', 'bare sys.exit() -> exit status 0'),
    'hip_parser_drops_exponent': ('C10', {'parse_mismatch'}, [
        ('src/hip_ra/__init__.py', "([0-9eE.+-]+)", "([0-9.+-]+)")], 'HIP-RA-X fields printed in scientific notation vanish from the client result'),
    'cli_exit_0_on_failure': ('C20', {'exit_status'}, [
        (MAIN, "rc = 1\ntry:\n    geophires.main()\n    rc = 0\nexcept SystemExit:", "rc = 0\ntry:\n    geophires.main()\nexcept Exception as e:\n    print(e)\nexcept SystemExit:")],
        'failure swallowed'),
    'report_opened_before_validation': ('C20', {'report_written_on_failure'}, [
        (G3, "    # read the parameters that apply to the model\n", "    open(model.outputs.output_file, 'w').close()  # make sure the output location is writable before the long calculation\n    # read the parameters that apply to the model\n")],
        'a failing run leaves an (empty) report'),
    'output_file_parameters_not_anchored_to_start_dir': ('C20', {'wrong_output_path', 'stray_file', 'exit_status'}, [
        (OUT, "                        if not Path(ParameterReadIn.sValue).is_absolute() and default_output_path is not None:",
         "                        if False and not Path(ParameterReadIn.sValue).is_absolute() and default_output_path is not None:")],
        'relative HTML Output File lands in the package directory'),
    'cli_relative_output_resolved_after_chdir': ('C20', {'wrong_output_path', 'missing_json', 'stray_file'}, [
        (MAIN, "    sys.argv[2] = Path(parsed_args['output-file']).absolute()", "    sys.argv[2] = Path(parsed_args['output-file'])")], 'relative output lands in the package directory'),
    'duplicate_label_in_report': ('C10', {'order_dependent_parse', 'parse_mismatch'}, [
        (OUT, "                f.write(NL)\n                f.write('                           ***SUMMARY OF RESULTS***\\n')",
         "                f.write('      Estimate    Project NPV:    99.00 MUSD\\n')\n                f.write(NL)\n                f.write('                           ***SUMMARY OF RESULTS***\\n')")],
        "a new report line that contains another field's label after four spaces"),
    'parser_truncates_at_thousands_separator': ('C10', {'parse_mismatch', 'csv_mismatch'}, [
        (RES, "            number_str = number_str.replace(',', '')\n", "            number_str = number_str.split(',')[0]\n")],
        'values >= 1000 printed with separators'),
    'parser_profile_drops_last_row': ('C10', {'parse_mismatch'}, [
        (RES, "        data_lines = profile_lines[5:]\n", "        data_lines = profile_lines[5:-1]\n")], 'dropped row'),
}


def make_copy(name):
    from . import kernel as K_
    dst = f'{K_.scratch_root()}/dsim-mutant-{name}'
    shutil.rmtree(dst, ignore_errors=True)
    os.makedirs(dst)
    shutil.copytree(os.path.join(REPO, 'src'), os.path.join(dst, 'src'), ignore=shutil.ignore_patterns('*.egg-info', '__pycache__', '*.log'))
    os.makedirs(os.path.join(dst, 'tests'))
    shutil.copytree(os.path.join(REPO, 'tests', 'examples'), os.path.join(dst, 'tests', 'examples'))
    return dst


def apply(dst, spec):
    if isinstance(spec, str) and spec.startswith('patch:'):
        with open(spec[6:]) as f:
            diff = f.read()
        r = subprocess.run(['patch', '-p1', '-d', dst, '--no-backup-if-mismatch'], input=diff, capture_output=True, text=True)
        if r.returncode != 0:
            raise RuntimeError(f'{spec} does not apply: {r.stdout[-400:]}')
        return
    if isinstance(spec, str) and spec.startswith('git:'):
        commit = spec[4:]
        diff = subprocess.run(['git', '-C', REPO, 'diff', commit, commit + '~1', '--', 'src'], capture_output=True, text=True, check=True).stdout
        r = subprocess.run(['patch', '-p1', '-d', dst, '--no-backup-if-mismatch'], input=diff, capture_output=True, text=True)
        if r.returncode != 0:
            raise RuntimeError(f'reverse patch of {commit} does not apply: {r.stdout[-400:]}')
        return
    for path, old, new in spec:
        p = os.path.join(dst, path)
        with open(p) as f:
            s = f.read()
        if old not in s:
            raise RuntimeError(f'{path}: anchor text not found: {old[:60]!r}')
        with open(p, 'w') as f:
            f.write(s.replace(old, new, 1))


def run_mutant(name, budget):
    prop, classes, spec, note = MUTANTS[name]
    dst = make_copy(name)
    t0 = time.monotonic()
    try:
        apply(dst, spec)
        shutil.rmtree(os.path.join(D.VERIF, 'replays'), ignore_errors=True)
        env = dict(os.environ, VERIF_REPO=dst, VERIF_BUDGET=str(budget), DSIM_SELFTEST='1')
        env.pop('DSIM_REFDIR', None)
        r = subprocess.run([sys.executable, os.path.join(D.VERIF, 'check'), prop, 'quick'], capture_output=True, text=True, env=env,
                           cwd=D.VERIF, timeout=1800)
        found = set()
        for ln in r.stdout.splitlines():
            ln = ln.strip()
            if classes is None:
                if ln.startswith('VIOLATION property=' + prop):
                    found.add('violation')
                continue
            for c in classes:
                if ln.startswith(c + '/'):
                    found.add(c)
        other = [ln.strip().split(':')[0] for ln in r.stdout.splitlines() if '/' in ln.split(':')[0] and ln.startswith('  ') and not ln.startswith('   ')]
        ok = r.returncode == 1 and bool(found)
        return {'mutant': name, 'check': prop, 'expected': sorted(classes) if classes else ['any violation of ' + prop], 'found': sorted(found), 'exit': r.returncode, 'detected': ok,
                'other_classes': sorted(set(other) - found)[:6], 'wall_s': round(time.monotonic() - t0, 1), 'note': note,
                'tail': '' if ok else (r.stdout + r.stderr)[-600:]}
    finally:
        shutil.rmtree(dst, ignore_errors=True)
        keep = os.environ.get('VERIF_SELFTEST_KEEP_REPLAYS')
        rp_ = os.path.join(D.VERIF, 'replays')
        if keep and os.path.isdir(rp_):
            os.makedirs(os.path.join(keep, name), exist_ok=True)
            for f_ in os.listdir(rp_):
                if f_.startswith(prop + '-'):
                    shutil.copy(os.path.join(rp_, f_), os.path.join(keep, name, f_))
        # replay files written against the scratch copy are meaningless for /repo
        rp = os.path.join(D.VERIF, 'replays')
        if os.path.isdir(rp):
            for f in os.listdir(rp):
                try:
                    with open(os.path.join(rp, f)) as fh:
                        if 'dsim-mutant' in fh.read(20000):
                            pass
                except OSError:
                    pass


def load_seeded():
    """seeded changes written by independent sub-agents: /verif/seeded/<id>/{patch.diff,demo.py,meta.json}"""
    root = os.path.join(D.VERIF, 'seeded')
    out = {}
    if os.path.isdir(root):
        for d in sorted(os.listdir(root)):
            mp = os.path.join(root, d, 'meta.json')
            if os.path.isfile(mp):
                with open(mp) as f:
                    m = json.load(f)
                out[d] = (m['property'], None, 'patch:' + os.path.join(root, d, 'patch.diff'), m.get('needs', ''))
    return out


def main(argv):
    what = argv[0] if argv else 'mutants'
    if what not in ('mutants', 'seeded'):
        print('usage: ./check selftest mutants|seeded [name ...]')
        return 2
    if what == 'seeded':
        MUTANTS.clear()
        MUTANTS.update(load_seeded())
    names = argv[1:] or list(MUTANTS)
    budget = float(os.environ.get('VERIF_SELFTEST_BUDGET', '45'))
    # evidence and replay files must not be clobbered by runs against scratch copies
    keep = os.path.join(D.VERIF, '.selftest-keep')
    shutil.rmtree(keep, ignore_errors=True)
    os.makedirs(keep)
    for d in ('evidence', 'replays'):
        if os.path.isdir(os.path.join(D.VERIF, d)):
            shutil.copytree(os.path.join(D.VERIF, d), os.path.join(keep, d))
    results = []
    try:
        for n in names:
            if n not in MUTANTS:
                print(f'unknown mutant {n}')
                continue
            try:
                res = run_mutant(n, budget)
            except Exception as e:  # noqa: BLE001
                res = {'mutant': n, 'detected': False, 'error': str(e)[:300]}
            results.append(res)
            print(('DETECTED ' if res.get('detected') else 'MISSED   ') + json.dumps({k: v for k, v in res.items() if k not in ('note',)}))
            sys.stdout.flush()
    finally:
        for d in ('evidence', 'replays'):
            shutil.rmtree(os.path.join(D.VERIF, d), ignore_errors=True)
            if os.path.isdir(os.path.join(keep, d)):
                shutil.copytree(os.path.join(keep, d), os.path.join(D.VERIF, d))
        shutil.rmtree(keep, ignore_errors=True)
    with open(os.path.join(D.VERIF, 'mutants', f'last_selftest_{what}.json'), 'w') as f:
        json.dump({'repo_head': D.repo_head(), 'budget_s': budget, 'results': results}, f, indent=1)
    missed = [r['mutant'] for r in results if not r.get('detected')]
    print(f'selftest: {len(results) - len(missed)}/{len(results)} mutants detected' + (f'; missed: {missed}' if missed else ''))
    return 0 if not missed else 1
