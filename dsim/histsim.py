"""Engine histsim: histories of requests against ONE host process.

A run is a short sequence of operations (client calls through reused client instances, in-process CLI runs,
direct GEOPHIRESv3.main calls, HIP-RA-X client calls, input-file rewrites, caller chdir / argv changes, armed faults on
the file seam, cancellation, clock jumps, a small embedded Monte-Carlo run) executed in a child forked from an
import-only template, with a reference model (cwd, argv, allowed files, pristine result per request content)
checked after every operation.  Serves C08, C10 (parser seam + per-report invariants) and C20."""
import errno
import hashlib
import json
import os
import re
import shutil
import sys
import tempfile

from . import hist_workloads as HW
from . import kernel as K
from . import runner
from . import tokenizer
from . import workloads as WL
from .choice import ChoiceSource

REPO_SRC = os.path.join(os.environ.get('VERIF_REPO', '/repo'), 'src')
PKG_DIR = os.path.join(REPO_SRC, 'geophires_x')
_state = {}

STAMP_RE = re.compile(r'^ ?(Simulation Date|Simulation Time|Calculation Time): .*$', re.M)


# --------------------------------------------------------------------------------------
# template
# --------------------------------------------------------------------------------------
def static_dir():
    return os.path.join(K.scratch_root(), f'dsim-static-{os.getuid()}')


def _write_static_files():
    """data files that requests name by absolute path: user-provided reservoir temperature profiles (reservoir model 5) that are
    legal but unusual - a restart time reported twice with different temperatures, a constant in the unused first column"""
    d = os.path.join(static_dir(), 'profiles')
    os.makedirs(d, exist_ok=True)
    try:
        with open(os.path.join(REPO_SRC, 'geophires_x', 'Examples', 'ReservoirOutput.txt'), encoding='utf-8') as f:
            rows = [ln for ln in f.read().split('\n') if ln.strip()]
    except OSError:
        rows = [f'{i * 0.25}\t,\t{150 - i * 0.1:.4f}' for i in range(121)]
    temps = [r.split(',')[1].strip() for r in rows]
    times = [r.split(',')[0].strip() for r in rows]
    files = {
        # time 5 is reported twice ('5' and '5.0'), so is 10: everything after the first duplicate is one step late
        'restart_twice.txt': [f'{t}\t,\t{v}' for t, v in zip(times[:20] + ['5', '5.0'] + times[22:60] + ['10', '10.00', '10.0'] + times[63:], temps)],
        'constant_first_column.txt': [f'1\t,\t{v}' for v in temps],
        'same_rows_repeated.txt': [f'{t}\t,\t{v}' for t, v in zip(times, temps[:40] + temps[39:-1])],
    }
    import math
    files['hourly_temperature.csv'] = ['hour,temperature'] + [
        f'{h + 1},{9.0 - 13.0 * math.cos(2 * math.pi * (h // 24 - 15) / 365.0) + 4.0 * math.sin(2 * math.pi * (h % 24) / 24.0):.2f}'
        for h in range(8760)]
    for name, lines in files.items():
        pth = os.path.join(d, name)
        body = '\n'.join(lines) + '\n'
        try:
            with open(pth, encoding='utf-8') as f:
                if f.read() == body:
                    continue
        except OSError:
            pass
        tmp = pth + f'.{os.getpid()}.tmp'
        with open(tmp, 'w', encoding='utf-8') as f:
            f.write(body)
        os.replace(tmp, pth)
    return d


def template_init(j=0, refserver=False):
    os.environ.setdefault('MPLBACKEND', 'Agg')
    HW.add_profile_tweaks(_write_static_files())
    HW.add_dh_tweaks(os.path.join(static_dir(), 'profiles', 'hourly_temperature.csv'))
    if not refserver and os.environ.get('DSIM_NO_REFSERVER') != '1':
        _start_ref_server()      # (first, so that it imports the repository while this process does)
    if not os.environ.get('VERIF_DEBUG'):
        dn = os.open(os.devnull, os.O_WRONLY)
        os.dup2(dn, 1)
        os.dup2(dn, 2)
    K.install()
    if REPO_SRC not in sys.path:
        sys.path.insert(0, REPO_SRC)
    import matplotlib
    matplotlib.use('Agg')
    import numpy  # noqa: F401
    import pandas  # noqa: F401
    import jsons  # noqa: F401
    import rich  # noqa: F401
    import geophires_x.GEOPHIRESv3 as g3
    import geophires_x_client  # noqa: F401
    import geophires_x_client.geophires_x_result as gxr
    import hip_ra_x  # noqa: F401
    import hip_ra  # noqa: F401
    import geophires_monte_carlo  # noqa: F401
    from geophires_monte_carlo import MC_GeoPHIRES3  # noqa: F401
    f = os.path.abspath(g3.__file__)
    if not f.startswith(os.path.abspath(REPO_SRC)):
        raise RuntimeError(f'geophires_x imported from {f}, expected under {REPO_SRC}')
    K.post_import_patch()
    # parser seam (C10): the name `set` in the result module resolves to a set whose pop() order the simulator decides
    gxr.set = SimSet
    from . import mcsim
    import matplotlib.pyplot as plt
    mcsim._stub_pyplot(plt)
    # observation point (no repository change): did the simulation proper - Model.Calculate - complete during an operation?
    # C20's "no report when the simulation fails" is judged only for failures before that point; a failure inside the
    # report writer itself necessarily leaves the part of the report it had already written
    try:
        import geophires_x.Model as _M
        _real_calc = _M.Model.Calculate

        def Calculate(self, *a, **kw):
            r = _real_calc(self, *a, **kw)
            _state['calc_done'] = _state.get('calc_done', 0) + 1
            return r
        _M.Model.Calculate = Calculate
        _state['calc_hook'] = True
    except Exception:  # noqa: BLE001
        _state['calc_hook'] = False
    _state['templates'] = HW.load_templates()
    _state['ranges'] = HW.declared_ranges()
    _state['provided_sensitive'] = HW.provided_sensitive()
    HW.add_default_tweaks(_state['provided_sensitive'])
    _state['pkg_listing'] = None
    # object addresses (id()) seen by repository code are simulated (kernel._sim_id)
    K.install_id_seam(('geophires_x', 'geophires_x_client', 'geophires_monte_carlo', 'hip_ra', 'hip_ra_x'))
    if _state.get('refsrv') is not None:
        _ref_via_server(None)


class SimSet(set):
    """set whose pop() order is chosen by the simulator: every order a hash seed could produce, and more"""
    chooser = None   # callable(n) -> index, installed per run

    def pop(self):
        if len(self) > 1 and SimSet.chooser is not None:
            items = sorted(self, key=repr)
            x = items[SimSet.chooser(len(items))]
            self.discard(x)
            return x
        return set.pop(self)


# --------------------------------------------------------------------------------------
# canonical forms
# --------------------------------------------------------------------------------------
def canon_report(text, sandbox=None):
    t = STAMP_RE.sub('', text)
    if sandbox:
        t = t.replace(sandbox, '$SB')
    return t


def canon_parsed(result_dict):
    d = json.loads(json.dumps(result_dict, default=str, sort_keys=True))
    md = d.get('metadata')
    if isinstance(md, dict):
        md.pop('output_file_path', None)
    return json.dumps(d, sort_keys=True)


def canon_json(text, sandbox=None):
    """canonical form of the JSON a run writes next to its report (key order and sandbox paths removed)"""
    try:
        t = json.dumps(json.loads(text), sort_keys=True)
    except ValueError:
        t = 'unparsable:' + text
    if sandbox:
        t = t.replace(sandbox, '$SB')
    return t


def json_beside(report_path):
    """where GEOPHIRES writes the JSON that belongs to a report: same directory, same stem"""
    d, name = os.path.split(str(report_path))
    return os.path.join(d, os.path.splitext(name)[0] + '.json')


def sha(s):
    return hashlib.sha256(s.encode('utf-8', 'replace')).hexdigest()


# --------------------------------------------------------------------------------------
# pristine reference: the request content run alone in a fresh process - forked from an import-only *reference server* that was
# exec'ed under ANOTHER PYTHONHASHSEED than the process the history runs in.  Every comparison with the reference is therefore
# also a comparison across hash seeds ("... or under a different hash seed gives numerically identical results"); when the two
# differ, the same content is run once more in a process forked from the history's own interpreter (same hash seed) to tell a
# dependence on the hash seed from a dependence on the history.
# --------------------------------------------------------------------------------------
def other_hash_seed():
    return '12345' if os.environ.get('PYTHONHASHSEED') != '12345' else '0'


def _start_ref_server():
    import subprocess
    env = dict(os.environ, PYTHONHASHSEED=other_hash_seed(), DSIM_REEXEC='1', DSIM_REFSERVER='1')
    check = os.path.join(os.path.dirname(os.path.dirname(os.path.abspath(__file__))), 'check')
    p = subprocess.Popen([sys.executable, check, 'refserver'], stdin=subprocess.PIPE, stdout=subprocess.PIPE, env=env, close_fds=True)
    _state['refsrv'] = {'proc': p, 'w': p.stdin.fileno(), 'r': p.stdout.fileno(), 'seed': env['PYTHONHASHSEED'], 'ready': False, 'n': 0}


def refserver_main():
    """./check refserver: import-only template under another hash seed; one forked child per reference request"""
    in_fd, out_fd = os.dup(0), os.dup(1)
    template_init(refserver=True)
    runner._send(out_fd, ('ready', os.environ.get('PYTHONHASHSEED')))
    while True:
        try:
            msg = runner._recv(in_fd)
        except EOFError:
            break
        if msg is None:
            break
        rid, args = msg
        res = runner.run_in_child(_ref_compute, args, 240)
        runner._send(out_fd, (rid, res))
    return 0


def _ref_via_server(args):
    import select
    srv = _state.get('refsrv')
    if srv is None:
        raise K.HarnessError('no reference server in this template')
    t_end = K._real['time.monotonic']() + 300

    def recv():
        while True:
            left = t_end - K._real['time.monotonic']()
            if left <= 0:
                raise K.HarnessError('reference server did not answer within 300 s')
            rd, _, _ = select.select([srv['r']], [], [], min(left, 2.0))
            if rd:
                try:
                    return runner._recv(srv['r'])
                except EOFError:
                    raise K.HarnessError('reference server died') from None
    if args is None:
        # called once by the template itself, at the end of its initialisation: wait for the server's greeting
        kind, seed = recv()
        if kind != 'ready' or seed != srv['seed']:
            raise K.HarnessError(f'reference server: unexpected greeting {kind!r} {seed!r}')
        srv['ready'] = True
        return None
    rid = f'{os.getpid()}-{srv["n"]}'
    srv['n'] += 1
    runner._send(srv['w'], (rid, args))
    while True:
        got = recv()
        if got[0] == 'ready':
            continue
        if got[0] == rid:
            return got[1]
        # (an answer to a request of an earlier history child of this template that was killed while waiting: dropped)


def _ref_compute(args):
    kind, content, refdir = args[:3]
    params = args[3] if len(args) > 3 else None     # the request as a base file plus a params dict (the client's other way in)
    d = tempfile.mkdtemp(prefix='ref-', dir=refdir)
    try:
        tempfile.tempdir = os.path.join(d, 'tmp')
        os.makedirs(tempfile.tempdir)
        os.makedirs(os.path.join(d, 'cwd'))
        os.chdir(os.path.join(d, 'cwd'))
        sys.argv = ['ref']
        from pathlib import Path
        out = {'outcome': 'raised', 'exc': None, 'report': None, 'parsed': None, 'json': None}
        if content is None:
            p = os.path.join(d, 'missing.txt')
        else:
            p = os.path.join(d, 'request.txt')
            with open(p, 'w', encoding='utf-8') as f:
                f.write(content)
        try:
            if kind == 'hip':
                from hip_ra import HipRaInputParameters
                from hip_ra_x import HipRaXClient
                r = HipRaXClient().get_hip_ra_result(HipRaInputParameters(Path(p)))
                with open(r.output_file_path) as f:
                    out['report'] = canon_report(f.read(), d)
                out['parsed'] = json.dumps(r.result, sort_keys=True, default=str)
            else:
                from geophires_x_client import GeophiresInputParameters
                from geophires_x_client import GeophiresXClient
                ip_ = GeophiresInputParameters(from_file_path=Path(p)) if params is None else \
                    GeophiresInputParameters(params=dict(params), from_file_path=Path(p))
                r = GeophiresXClient(enable_caching=False).get_geophires_result(ip_)
                with open(r.output_file_path) as f:
                    out['report'] = canon_report(f.read(), d)
                out['parsed'] = canon_parsed(r.result)
                try:
                    with open(json_beside(r.output_file_path), encoding='utf-8') as f:
                        out['json'] = canon_json(f.read(), d)
                except OSError:
                    out['json'] = None
            out['outcome'] = 'ok'
        except BaseException as e:  # noqa: BLE001
            out['exc'] = type(e).__name__
            out['msg'] = str(e)[:200]
        return out
    finally:
        shutil.rmtree(d, ignore_errors=True)


def post_run(rec):
    """runs in the template (pristine, same hash seed as the history): a result that differs from the reference computed under
    the other hash seed is compared with the same content run alone under THIS hash seed; if that gives what the history
    got, the difference is a dependence on the hash seed, not on the history or the entry point"""
    srv = _state.get('refsrv')
    same = {}
    for v in rec.get('violations') or []:
        rc = v.pop('_recheck', None)
        if not rc or srv is None:
            continue
        key = (rc['kd'], rc['txt'])
        if key not in same:
            same[key] = runner.run_in_child(_ref_compute, (rc['kd'], rc['txt'], os.environ.get('DSIM_REFDIR') or K.scratch_root()), 240)
        r0 = same[key]
        if r0.get('harness_error'):
            rec['harness_error'] = 'same_seed_reference_failed'
            rec['detail'] = str(r0.get('detail'))[:2000]
            continue
        a = rc['aspect']
        val = r0.get('outcome') if a == 'outcome' else (sha(r0[a]) if r0.get(a) is not None else None)
        rec.setdefault('stats', {})['same_seed_rechecks'] = rec.get('stats', {}).get('same_seed_rechecks', 0) + 1
        if val == rc['got']:
            v['detail'] = (f"run alone under PYTHONHASHSEED={os.environ.get('PYTHONHASHSEED')} the same content gives what this operation gave; "
                           f"run alone under PYTHONHASHSEED={srv['seed']} it gives something else: " + v['detail'])
            v['cause'] = f"{v['cause']}"
            v['was'] = f"{v['property']} {v['cls']}"
            v['property'], v['cls'] = 'C08', 'hashseed_dependent_result'
        elif rc.get('params') is not None and rc.get('base') is not None:
            # the request came in as base file + params dict: run alone THAT way in a pristine process.  If that gives what the
            # history got, the difference is not a matter of history: the client's two ways of stating the same input disagree
            # (C20: all entry points give the same answer)
            key1 = (rc['kd'], rc['base'], json.dumps(rc['params'], sort_keys=True))
            if key1 not in same:
                same[key1] = runner.run_in_child(_ref_compute, (rc['kd'], rc['base'], os.environ.get('DSIM_REFDIR') or K.scratch_root(),
                                                                rc['params']), 240)
            r1 = same[key1]
            if r1.get('harness_error'):
                continue
            val1 = r1.get('outcome') if a == 'outcome' else (sha(r1[a]) if r1.get(a) is not None else None)
            rec['stats']['params_entry_rechecks'] = rec['stats'].get('params_entry_rechecks', 0) + 1
            if val1 == rc['got']:
                v['detail'] = ('run alone in a fresh process as base file + params dict the request gives what this operation gave; as one file '
                               'with the same lines it gives something else: ' + v['detail'])
                v['was'] = f"{v['property']} {v['cls']}"
                v['property'], v['cls'] = 'C20', 'entrypoint_report_diff'
                v['cause'] = 'client_params_vs_one_file_' + a
    return rec


def reference(kind, content, refdir, stats):
    srv = _state.get('refsrv')
    key = sha(f'{kind}\0{content}')
    path = os.path.join(refdir, key + f".v2.hs{srv['seed'] if srv else 'same'}.json")
    try:
        with K._real['open'](path) as f:
            stats['ref_hits'] = stats.get('ref_hits', 0) + 1
            return json.load(f)
    except (OSError, ValueError):
        pass
    stats['ref_miss'] = stats.get('ref_miss', 0) + 1
    if srv is not None:
        res = _ref_via_server((kind, content, refdir))
        res['hash_seed'] = srv['seed']
    else:
        res = runner.run_in_child(_ref_compute, (kind, content, refdir), 240)
    if res.get('harness_error'):
        raise K.HarnessError(f"reference run failed: {res['harness_error']} {res.get('detail', '')[:300]}")
    tmp = path + f'.{os.getpid()}.tmp'
    with K._real['open'](tmp, 'w') as f:
        json.dump(res, f)
    os.replace(tmp, path)
    return res


# --------------------------------------------------------------------------------------
# history generation
# --------------------------------------------------------------------------------------
ENTRIES = ['client', 'client_params', 'cli', 'main_argv', 'hip']
OUT_FORMS = ['absent', 'rel', 'rel_nested', 'rel_nosuffix', 'rel_oneletter', 'rel_repeated', 'abs', 'abs_nosuffix',
             'rel_tilde', 'rel_tildedir', 'rel_symlink', 'rel_dotdot', 'rel_dot', 'rel_upper', 'rel_dotted', 'rel_txt', 'rel_linkdotdot', 'rel_dash',
             # characters that mean something to a formatting or configuration layer a path may be passed through ('%' to
             # %-formatting and configparser interpolation, braces to str.format, '$' to shells and templates), and names that
             # another kind of file usually has
             'rel_percent', 'abs_percent', 'rel_braces', 'rel_logname', 'rel_jsonname',
             # a legal name close to the longest a directory entry can have (255 bytes): anything built by adding to it does not fit
             'rel_longname']
CWD_DIRS = ['cwd0', 'cwd with space', 'deep/x/y/z', 'decoy', 'w', 'util 90% runs']
ARGVS = [['caller'], ['pytest', '-ra', '-q'], ['prog', 'a.txt', 'b.out'], []]
OUT_NAMES = {'rel': 'result.out', 'rel_nested': 'sub dir/nested.out', 'rel_nosuffix': 'r', 'rel_oneletter': 'o.t',
             'rel_repeated': 'out.d/out', 'abs': 'res.abs.out', 'abs_nosuffix': 'absreport', 'rel_tilde': '~run1/out.txt',
             'rel_tildedir': '~/out.txt', 'rel_symlink': 'latest.out', 'rel_dotdot': '../sibling dir/out.txt', 'rel_dot': './dot.out',
             'rel_upper': 'Report.OUT', 'rel_dotted': 'v1.2/res.v3.out', 'rel_txt': 'case.txt',
             'rel_linkdotdot': 'outlnk/../via.out', 'rel_dash': '-dash.out',
             'rel_percent': 'drawdown_5%.out', 'abs_percent': '100%s/%(x)s.out', 'rel_braces': '{case}_$HOME.out', 'rel_logname': 'run1.log',
             'rel_jsonname': 'result.json.out', 'rel_longname': 'long_' + 'r' * 236 + '.out'}
# output paths at which no report can be written although the JSON next to it can (an existing directory, a dangling symbolic
# link): whatever the run does, it must not claim success.  (A link to /dev/full would be a third, but reading it back - the
# console echo - never ends; disk-full is covered by the injected ENOSPC.)
UNWRITABLE_FORMS = ['rel_isdir', 'rel_dangling']
UNWRITABLE_NAMES = {'rel_isdir': 'taken.out', 'rel_dangling': 'dangling.out'}
# (the *_json kinds hit the JSON written next to the report - or whatever temporary sibling it is written through - and nothing else)
# (cancel_deep: the caller's cancellation arrives at an arbitrary LINE of the simulator, not at a system call - see _deep_tracer)
FAULTS = ['enospc', 'eio', 'eacces', 'vanish', 'cancel', 'enospc_json', 'eacces_json', 'cancel_deep']
# (counted from the start of the run, or from the moment Model.Calculate is entered: reading and validating the input executes
# a hundred times more lines than the numerical core, which is where the time goes)
DEEP_AT = [('run', 40), ('calc', 5), ('calc', 25), ('run', 600), ('calc', 60), ('calc', 150), ('run', 10000), ('calc', 400), ('calc', 2000),
           ('run', 150000), ('calc', 20000)]
FAULT_AT = [1, 2, 3, 4, 5, 6, 7, 8, 10, 12, 15, 20, 25, 30, 40]
# (the last one lives in the decoy directory under a name that also exists, relative to the package directory, in the
# repository: an entry point that resolves a relative input path after changing directory reads the wrong file)
SLOT_PATHS = ['in/req0.txt', 'in dir/req 1.txt', 'deep/a/b/req2.txt', 'decoy/Examples/example1.txt',
              # unusual-but-legal names: upper-case extension, no extension, non-ASCII
              'in/REQ4.TXT', 'in/noext', 'in/\u00fcn\u00ef \u00e7\u00f8d\u00e9/r\u00e9q 6.txt',
              # names that are also shell patterns; next to each lives ANOTHER input file that the pattern matches (GLOB_SIBLINGS)
              'in/case[1].txt', 'runs [2]/in.txt', 'in/what?.txt']
GLOB_SIBLINGS = ['in/case1.txt', 'runs 2/in.txt', 'in/what1.txt']
# how the text of a request is laid out in its file (the same parameters, another spelling of the file)
FMTS = [None, None, None, None, None, 'crlf', 'nofinalnl', 'trailing', 'bom', 'comments', 'tabs']


def gen_request(cs, templates, kind=None, allow_slow=False, fail=None, neighbour_of=None, family=None):
    req = _gen_request(cs, templates, kind, allow_slow, fail, neighbour_of, family)
    req['fmt'] = FMTS[cs.choose(len(FMTS), 'fmt')] if neighbour_of is None or cs.choose(3, 'nfmt') == 2 else neighbour_of.get('fmt')
    return req


RESMODEL_FAMILY = ('geo_mpf_small', 'geo_lhs_small', 'geo_sf_sorc', 'geo_tdp_orc', 'example2')
# district heating with the demand computed from an hourly temperature profile: requests that differ in one option value
DH_FAMILY = ('dh_example12',)
# requests whose tweaks all concern units: values stated in other units than the preferred ones, `Units:` output overrides, and the few
# inputs that take a unit-related warning path - whatever a request leaves in a process-wide unit registry meets the next one
UNITS_FAMILY = ('__units__',)


def _gen_request(cs, templates, kind=None, allow_slow=False, fail=None, neighbour_of=None, family=None):
    if neighbour_of is not None:
        # same configuration family, exactly one more parameter moved: the pairs that expose incomplete memo keys
        ti = neighbour_of['template']
        if cs.choose(4, 'ntable') == 3 or (templates[ti]['kind'] == 'hip' and cs.choose(2, 'ntable2') == 1):
            tab_ = HW.GEO_TWEAKS if templates[ti]['kind'] == 'geo' else HW.HIP_TWEAKS
            a = cs.choose(len(tab_), 'tweak')
            tw = (tab_[a][0], tab_[a][1][cs.choose(len(tab_[a][1]), 'tweakv')])
        else:
            tw = HW.neighbour_tweak(cs, templates[ti], _state.get('ranges', {}))
        tweaks = [x for x in neighbour_of['tweaks'] if tw is None or x[0] != tw[0]] + ([tw] if tw else [])
        return {'template': ti, 'tweaks': [tuple(x) for x in tweaks], 'poison': None}
    pool = [i for i, t in enumerate(templates) if (kind is None or t['kind'] == kind)
            and (t['cost'] == 'fast' or (allow_slow and t['cost'] == 'slow') or (family is DH_FAMILY and t['cost'] == 'dh'))]
    if family and kind != 'hip':
        # a small family of configurations that differ in the reservoir model; one request in three fails INSIDE the calculation
        pool = [i for i in pool if templates[i]['name'] in family] or pool
        if fail is None:
            fail = cs.choose(3 if family not in (DH_FAMILY, UNITS_FAMILY) else 8, 'fpoison') == 2
    ti = pool[cs.choose(len(pool), 'template')]
    t = templates[ti]
    tweaks_tab = HW.HIP_TWEAKS if t['kind'] == 'hip' else HW.GEO_TWEAKS
    tweaks = []
    if family is UNITS_FAMILY and t['kind'] != 'hip':
        if 'unit_tweaks' not in _state:
            _state['unit_tweaks'] = [tw_ for tw_ in HW.GEO_TWEAKS if tw_[0].startswith('Units:') or tw_[0] == 'Starting Heat Sale Price'
                                     or any(re.match(r'^-?[\d.]+(e[-+]?\d+)?[ \t]+[A-Za-z]', str(v_)) for v_ in tw_[1])]
        ut = _state['unit_tweaks']
        for _ in range(1 + cs.choose(2, 'nunit')):
            a = cs.choose(len(ut), 'unittweak')
            tweaks.append((ut[a][0], ut[a][1][cs.choose(len(ut[a][1]), 'unittweakv')]))
    if family is DH_FAMILY and t['name'] in DH_FAMILY and HW.DH_TWEAKS:
        a = cs.choose(len(HW.DH_TWEAKS), 'dhtweak')
        tweaks.append((HW.DH_TWEAKS[a][0], HW.DH_TWEAKS[a][1][cs.choose(len(HW.DH_TWEAKS[a][1]), 'dhtweakv')]))
    for _ in range(cs.choose(3, 'ntweak')):
        if cs.choose(2, 'tweakkind') == 1:
            tw = HW.neighbour_tweak(cs, t, _state.get('ranges', {}))
            if tw:
                tweaks.append(tw)
            continue
        a = cs.choose(len(tweaks_tab), 'tweak')
        tweaks.append((tweaks_tab[a][0], tweaks_tab[a][1][cs.choose(len(tweaks_tab[a][1]), 'tweakv')]))
    poison = None
    if fail is None:
        fail = cs.choose(5, 'poison') == 4
    if fail:
        ptab = HW.HIP_POISON if t['kind'] == 'hip' else (HW.GEO_CALC_POISON if family else HW.GEO_POISON)
        poison = ptab[cs.choose(len(ptab), 'poisonv')]
    return {'template': ti, 'tweaks': tweaks, 'poison': poison}


def request_text(req, templates):
    t = templates[req['template']]
    s = t['text']
    if not s.endswith('\n'):
        s += '\n'
    for k_, v in req['tweaks']:
        s += f'{k_}, {v}\n'
    if req['poison']:
        s += req['poison'] + '\n'
    return _layout(s, req.get('fmt'))


def _layout(s, fmt):
    if not fmt:
        return s
    if fmt == 'crlf':
        return s.replace('\n', '\r\n')
    if fmt == 'nofinalnl':
        return s.rstrip('\n')
    if fmt == 'bom':
        # (the mark in front of the first PARAMETER line: leading comment lines are dropped, as an editor that saves with a byte order
        # mark does not care what the first line is)
        lines = s.split('\n')
        while len(lines) > 1 and (not lines[0].strip() or lines[0].lstrip().startswith(('#', '*', '-'))):
            lines.pop(0)
        return '\ufeff' + '\n'.join(lines)
    lines = s.split('\n')
    out = []
    for i, ln in enumerate(lines):
        body = ln.strip()
        is_param = bool(body) and not body.startswith(('#', '-', '*')) and ',' in body
        if fmt == 'trailing':
            out.append(ln + '  \t' if is_param else ln)
        elif fmt == 'tabs':
            out.append(ln.replace(', ', ',\t', 1).replace(',', ',\t', 1) if is_param and ',\t' not in ln and ', ' not in ln
                       else ln.replace(', ', ',\t', 1) if is_param else ln)
        else:   # comments
            if i % 5 == 0:
                out.append('# a comment line, with a comma')
            if i % 7 == 3:
                out.append('')
            out.append(ln + ', -- a note, with a comma' if is_param and i % 3 == 0 and ln.count(',') == 1 else ln)
    return '\n'.join(out)


THEMES = ['mixed', 'cache', 'paths', 'mixed', 'faults', 'cache', 'hip', 'resmodels', 'mixed', 'cache', 'paths', 'dh', 'sweep', 'faults', 'units', 'cancel']


def gen_history(cs, templates, tier, force=None):
    """swarm style: every history has a theme that skews the operation mix, the entry points, the slot and the client used"""
    force = force or {}
    h = {}
    theme = force.get('theme') or THEMES[cs.choose(len(THEMES), 'theme')]
    h['theme'] = theme
    fam = None
    h['faulty'] = force.get('faulty', theme in ('faults', 'cancel') or (theme == 'mixed' and cs.choose(4, 'faulty') == 3))
    allow_slow = cs.choose(4, 'slow') == 3 if tier == 'thorough' else cs.choose(12, 'slow') == 11
    h['start_cwd'] = CWD_DIRS[cs.choose(len(CWD_DIRS), 'startcwd')]
    nops = 2 + cs.choose(7, 'nops')
    if allow_slow and tier != 'thorough':
        nops = min(nops, 4)
    if theme == 'cache':
        kinds = ['run'] * 4 + ['rewrite'] * 5 + ['chdir', 'clock', 'delete']
        entries = ['client'] * 4 + ['client_params'] * 2 + ['cli', 'main_argv']
        slot_tab = [0]
        c0 = [0, 2][cs.choose(2, 'cacheclient')]
        client_tab = [c0] * 6 + [1, 2 - c0]
        p_neighbour = 3      # of 4
    elif theme == 'hip':
        # HIP-RA-X requests one after another (and the odd GEOPHIRES one): purity of the second simulator
        kinds = ['run'] * 5 + ['rewrite'] * 5 + ['chdir', 'clock', 'delete']
        entries = ['hip'] * 6 + ['client', 'cli']
        slot_tab = [0, 0, 0, 1]
        client_tab = [0, 1]
        p_neighbour = 3
    elif theme == 'resmodels':
        # requests of a few reservoir-model families one after the other through a client that computes every time, a third of
        # them failing inside the calculation: whatever a (failed) calculation leaves behind in a shared numerical library
        # (mpmath precision, numpy error state) or in a module shows in the next family's numbers
        kinds = ['run'] * 5 + ['rewrite'] * 5 + ['chdir']
        entries = ['client'] * 5 + ['main_argv', 'cli', 'client_params']
        slot_tab = [0, 0, 1]
        client_tab = [1, 1, 1, 0]
        p_neighbour = 0
        fam = RESMODEL_FAMILY
        nops = 6 + cs.choose(5, 'nops_res')
    elif theme == 'units':
        kinds = ['run'] * 5 + ['rewrite'] * 6
        entries = ['client'] * 5 + ['cli', 'main_argv', 'client_params']
        slot_tab = [0, 0, 1]
        client_tab = [1, 1, 0]
        p_neighbour = 0
        fam = UNITS_FAMILY
        nops = 5 + cs.choose(4, 'nops_units')
    elif theme == 'cancel':
        # a request of one of the reservoir-model families is cancelled somewhere inside its run - at a line of the simulator, not at
        # a system call - and then asked again (or its neighbour is): whatever the cancelled run had half done is not done
        kinds = ['run'] * 2 + ['rewrite'] * 2 + ['fault'] * 3
        entries = ['client'] * 4 + ['main_argv']
        slot_tab = [0, 0, 1]
        client_tab = [1, 1, 0]
        p_neighbour = 2
        fam = RESMODEL_FAMILY
        nops = 5 + cs.choose(4, 'nops_cancel')
    elif theme == 'dh':
        # one configuration family (district heating), 3-5 requests that differ in one option value (the census division, the
        # number of housing units, the demand option), through a client that computes every time: whatever a request uses up or
        # leaves selected in a module-level table shows in the next one
        kinds = ['run'] * 4 + ['rewrite'] * 6
        entries = ['client'] * 5 + ['main_argv', 'cli', 'client_params']
        slot_tab = [0, 0, 1]
        client_tab = [1, 1, 1, 0]
        p_neighbour = 0
        fam = DH_FAMILY
        nops = 3 + cs.choose(3, 'nops_dh')
    elif theme == 'sweep':
        # a parameter sweep: one base file, one long-lived caching client, 5-9 requests built from params dicts that differ from
        # call to call (some repeat), the request objects dropped as soon as they were served
        kinds = ['run'] * 9 + ['rewrite', 'chdir']
        entries = ['client_params'] * 7 + ['client']
        slot_tab = [0]
        c0 = [0, 2][cs.choose(2, 'sweepclient')]
        client_tab = [c0] * 7 + [1]
        p_neighbour = 2
        nops = 5 + cs.choose(5, 'nops_sweep')
    elif theme == 'paths':
        kinds = ['run'] * 6 + ['chdir'] * 3 + ['rewrite', 'argv', 'delete', 'crashed_run', 'crashed_run']
        entries = ['cli'] * 5 + ['main_argv', 'client', 'hip']
        slot_tab = [0, 0, 1, 2, 3, 3, 4, 5, 6, 7, 8, 9]
        client_tab = [0, 0, 2, 1]
        p_neighbour = 1
    else:
        kinds = ['run', 'run', 'run', 'run', 'rewrite', 'rewrite', 'rewrite', 'chdir', 'argv', 'clock', 'delete', 'mc', 'crashed_run']
        entries = ENTRIES
        slot_tab = [0, 0, 0, 1, 2, 4, 5, 6, 7, 8]
        client_tab = [0, 0, 2, 1]
        p_neighbour = 2
    if h['faulty']:
        kinds = kinds + ['fault'] * (6 if theme == 'faults' else 4)
    ops = []
    slots = {}
    nruns = 0

    def mk_run(entry, slot):
        nonlocal nruns
        op = {'op': 'run', 'entry': entry, 'slot': slot, 'client': client_tab[cs.choose(len(client_tab), 'client')],
              'out': OUT_FORMS[cs.choose(len(OUT_FORMS), 'out')], 'reuse': cs.choose(2, 'reuse') == 1}
        # the caller keeps the result object and first looks at it after later operations (a sweep analysed after the loop)
        op['defer'] = entry in ('client', 'client_params') and cs.choose(4, 'defer') == 3
        if entry == 'cli' and cs.choose(12, 'unwritable') == 11:
            op['out'] = UNWRITABLE_FORMS[cs.choose(len(UNWRITABLE_FORMS), 'unwritable_form')]
        if entry == 'client_params':
            if theme == 'cache' and fixed_params and cs.choose(4, 'psame') != 0:
                # the same params dict again (on top of a base file that may have been rewritten in between)
                op['params'] = dict(fixed_params[0])
            elif theme == 'sweep' and sweep_params and cs.choose(4, 'prepeat') == 0:
                op['params'] = dict(sweep_params[cs.choose(len(sweep_params), 'prepeat_which')])
            else:
                tw = HW.GEO_TWEAKS[cs.choose(len(HW.GEO_TWEAKS), 'ptweak')]
                op['params'] = {tw[0]: tw[1][cs.choose(len(tw[1]), 'ptweakv')]}
                sweep_params.append(dict(op['params']))
                if cs.choose(6, 'pbad') == 5:
                    op['params'] = {'Utilization Factor': '7'}
                elif not fixed_params:
                    fixed_params.append(dict(op['params']))
        ops.append(op)
        nruns += 1

    fixed_params = []
    sweep_params = []
    for i in range(nops):
        kind = kinds[cs.choose(len(kinds), 'op')]
        if kind == 'run' or (i == nops - 1 and nruns == 0):
            entry = force.get('entry') or entries[cs.choose(len(entries), 'entry')]
            slot = slot_tab[cs.choose(len(slot_tab), 'slot')]
            rk = 'hip' if entry == 'hip' else 'geo'
            if slot not in slots or slots[slot]['kind'] != rk:
                req = gen_request(cs, templates, rk, allow_slow, family=fam)
                ops.append({'op': 'write', 'slot': slot, 'req': req, 'kind': rk})
                slots[slot] = {'kind': rk, 'req': req}
            mk_run(entry, slot)
        elif kind == 'rewrite':
            if not slots:
                continue
            sl = sorted(slots)[cs.choose(len(slots), 'rwslot')]
            past = [r_ for r_ in slots[sl].get('past', []) if r_ != slots[sl]['req']]
            if past and cs.choose(3, 'back') == 2:
                # back to a content this file held before (A, B, A): whatever is remembered per path or per content from the
                # first time meets the file again after something else was there
                req = past[cs.choose(len(past), 'backto')]
                h['back_to_earlier_content'] = h.get('back_to_earlier_content', 0) + 1
            elif cs.choose(4, 'neighbour') < p_neighbour:
                req = gen_request(cs, templates, neighbour_of=slots[sl]['req'])
            else:
                req = gen_request(cs, templates, slots[sl]['kind'], allow_slow, family=fam)
            slots[sl].setdefault('past', []).append(slots[sl]['req'])
            slots[sl]['req'] = req
            ops.append({'op': 'write', 'slot': sl, 'req': req, 'kind': slots[sl]['kind'], 'keep_mtime': cs.choose(4, 'keep_mtime') == 3})
            if slots[sl]['kind'] == 'hip' and theme == 'hip':
                mk_run('hip', sl)
            elif slots[sl]['kind'] == 'geo' and (theme in ('cache', 'resmodels', 'units', 'cancel') or cs.choose(2, 'rerun') == 1):
                # run the rewritten file again straight away (the interesting case for caches)
                mk_run('client' if theme != 'paths' else 'cli', sl)
        elif kind == 'chdir':
            ops.append({'op': 'chdir', 'dir': CWD_DIRS[cs.choose(len(CWD_DIRS), 'dir')]})
        elif kind == 'argv':
            ops.append({'op': 'argv', 'argv': list(ARGVS[cs.choose(len(ARGVS), 'argv')])})
        elif kind == 'clock':
            ops.append({'op': 'clock', 'delta': [3600.0, -3600.0, 86400.0 * 400, -86400.0 * 30, 2.0 ** 31][cs.choose(5, 'delta')]})
        elif kind == 'delete':
            if not slots:
                continue
            sl = sorted(slots)[cs.choose(len(slots), 'delslot')]
            ops.append({'op': 'delete', 'slot': sl})
        elif kind == 'crashed_run':
            # crash and restart: ANOTHER process ran a command in this directory tree and was killed (SIGKILL: nothing unwinds, only
            # what had reached the kernel survives) at its n-th system call; usually the same command is then run again
            if not slots:
                continue
            geo_slots = [x for x in sorted(slots) if slots[x]['kind'] == 'geo']
            if not geo_slots:
                continue
            sl = geo_slots[cs.choose(len(geo_slots), 'crslot')]
            entry = ['cli', 'cli', 'client', 'main_argv'][cs.choose(4, 'crentry')]
            out = OUT_FORMS[cs.choose(len(OUT_FORMS), 'crout')]
            ops.append({'op': 'crashed_run', 'entry': entry, 'slot': sl, 'out': out, 'client': 1, 'reuse': False, 'defer': False,
                        'at': [3, 6, 10, 15, 20, 25, 30, 40, 60, 90, 130][cs.choose(11, 'crat')]})
            if cs.choose(4, 'crrerun') != 0:
                ops.append({'op': 'run', 'entry': entry, 'slot': sl, 'out': out, 'client': client_tab[cs.choose(len(client_tab), 'client')],
                            'reuse': False, 'defer': False})
                nruns += 1
        elif kind == 'mc':
            ops.append({'op': 'mc', 'iterations': 2 + cs.choose(2, 'mcit'), 'W': 1 + cs.choose(2, 'mcw'),
                        'fail': [None, None, None, 'all_iterations', 'no_settings_file'][cs.choose(5, 'mcfail')]})
        elif kind == 'fault':
            if theme == 'cancel':
                ops.append({'op': 'fault', 'kind': 'cancel_deep', 'at': cs.choose(len(DEEP_AT), 'deepat')})
            else:
                ops.append({'op': 'fault', 'kind': FAULTS[cs.choose(len(FAULTS), 'fkind')],
                            'at': FAULT_AT[cs.choose(len(FAULT_AT), 'fat')]})
            if slots and cs.choose(4, 'frun') != 0:
                # a fault while idle tests nothing: most armed faults are followed at once by a run on an existing slot
                sl = sorted(slots)[cs.choose(len(slots), 'fslot')]
                entry = 'hip' if slots[sl]['kind'] == 'hip' else ['client', 'cli', 'client_params', 'main_argv', 'client'][cs.choose(5, 'fentry')]
                mk_run(entry, sl)
                if cs.choose(3, 'fretry') != 0:
                    # ... and the caller tries the very same request again (same client, same file, same output): the obstacle was
                    # transient, the second attempt is an ordinary request
                    ops.append(dict(ops[-1]))
                    nruns += 1
    h['ops'] = ops
    return h


# --------------------------------------------------------------------------------------
# executing one history
# --------------------------------------------------------------------------------------
class Fault:
    def __init__(self, kind, at_seq):
        self.kind, self.at_seq = kind, at_seq
        self.fired = None


def _deep_tracer(k, fault, target):
    """cancellation (KeyboardInterrupt) at the target-th executed LINE of the geophires_x package during one run: sys.settrace hands
    out line events only for frames of that package, and the interrupt is delivered at the first such line at or after the target
    where no third-party frame is on the stack (an interrupt that unwinds through a numerical library is that library's business:
    mpmath, for one, restores its working precision without try/finally)"""
    pkg = os.path.join(os.path.abspath(REPO_SRC), 'geophires_x') + os.sep
    mode, target = target
    state = {'n': 0, 'on': mode == 'run'}

    def local(frame, event, arg):
        if event == 'line' and fault.fired is None and state['on']:
            state['n'] += 1
            if state['n'] >= target:
                f = frame.f_back
                pure = True
                while f is not None:
                    fn = f.f_code.co_filename
                    if 'site-packages' in fn:
                        pure = False
                        break
                    if fn.endswith('histsim.py'):
                        break
                    f = f.f_back
                if pure:
                    where = f'{os.path.basename(frame.f_code.co_filename)}:{frame.f_code.co_name}'
                    fault.fired = ('line', where)
                    k.fault_fired['cancel_deep'] += 1
                    k.record('fault:cancel_deep', f'{mode}+{target}')
                    sys.settrace(None)
                    raise KeyboardInterrupt()
        return local

    def tracer(frame, event, arg):
        if event == 'call' and fault.fired is None and frame.f_code.co_filename.startswith(pkg):
            if not state['on'] and frame.f_code.co_name == 'Calculate' and frame.f_code.co_filename.endswith('Model.py'):
                state['on'] = True
            return local
        return None
    return tracer


def _fault_hook(k):
    def hook(kind, detail):
        f = k.armed
        if f is None or f.fired or k.seq < f.at_seq:
            return
        pc = K.cur()
        if pc is None or pc.role != 'parent':
            return      # faults of a history target the host process, not the workers of an embedded Monte-Carlo pool
        exc = None
        if f.kind == 'cancel':
            exc = KeyboardInterrupt()
        elif f.kind in ('enospc', 'eio') and kind in ('write', 'close', 'open-w'):
            if '/dev/null' in detail or '.log' in detail:
                return
            code = errno.ENOSPC if f.kind == 'enospc' else errno.EIO
            exc = OSError(code, os.strerror(code))
        elif f.kind == 'eacces' and kind == 'open-w':
            exc = PermissionError(errno.EACCES, 'Permission denied (injected)')
        elif f.kind == 'enospc_json' and kind in ('write', 'close') and '.json' in detail:
            exc = OSError(errno.ENOSPC, os.strerror(errno.ENOSPC))
        elif f.kind == 'eacces_json' and kind in ('open-w', 'rename') and '.json' in detail:
            exc = PermissionError(errno.EACCES, 'Permission denied (injected)')
        elif f.kind == 'vanish' and kind == 'open-r' and ('/in' in detail or 'req' in detail or 'geophires-input' in detail):
            exc = FileNotFoundError(errno.ENOENT, 'No such file or directory (injected)')
        if exc is not None:
            f.fired = (kind, detail)
            k.fault_fired[f.kind] += 1
            k.record('fault:' + f.kind, f'{kind} {detail}')
            raise exc
    return hook


def list_dir(d):
    out = set()
    try:
        for root, dirs, files in os.walk(d):
            for f in files:
                out.add(os.path.relpath(os.path.join(root, f), d))
    except OSError:
        pass
    return out


def run_one(payload):
    import numpy as np
    import random as _random
    seed = payload['seed']
    t_start = K._real['time.monotonic']()
    cs = ChoiceSource(seed, replay=payload.get('choices'))
    tier = payload.get('tier', 'quick')
    templates = _state['templates']
    h = payload.get('history') or gen_history(cs, templates, tier, payload.get('force'))    # (explicit history: hand-written scenarios)
    refdir = os.environ.get('DSIM_REFDIR') or tempfile.mkdtemp(prefix='dsim-ref-', dir=K.scratch_root())
    os.makedirs(refdir, exist_ok=True)
    sandbox = K.make_sandbox('h', seed)
    rec = {'seed': seed, 'engine': 'histsim', 'history': h, 'config': h}
    stats = {}
    try:
        os.environ['HOME'] = os.path.join(sandbox, 'home')
        for d in ['tmp', 'in', 'in dir', 'deep/a/b', 'out abs', 'home'] + CWD_DIRS:
            os.makedirs(os.path.join(sandbox, d), exist_ok=True)
        # decoys: files a run must neither read instead of its own data nor overwrite
        dec = os.path.join(sandbox, 'decoy')
        os.makedirs(os.path.join(dec, 'Examples'), exist_ok=True)
        for name, body in (('HDR.out', 'decoy report\n'), ('logging.conf', '[loggers]\nkeys=\n'),
                           ('Examples/ReservoirOutput.txt', '0, 1\n'), ('Examples/cornell_heat_demand.csv', 'x\n')):
            with open(os.path.join(dec, name), 'w') as f:
                f.write(body)
        # the same decoy data files next to every request slot (a relative data-file name inside an input is resolved against the
        # package directory by every entry point, never against the directory the input happens to live in)
        for sp in GLOB_SIBLINGS:
            # another, valid input under a name that the slot's name matches when it is read as a pattern
            os.makedirs(os.path.join(sandbox, os.path.dirname(sp)), exist_ok=True)
            with open(os.path.join(sandbox, sp), 'w') as f:
                f.write(WL.GEO_BASE + 'Gradient 1, 48\nPrint Output to Console, 0\n')
        for sp in SLOT_PATHS:
            dd = os.path.join(sandbox, os.path.dirname(sp), 'Examples')
            os.makedirs(dd, exist_ok=True)
            for name, body in (('ReservoirOutput.txt', '0, 1\n1, 2\n'), ('cornell_heat_demand.csv', 'x\n')):
                if not os.path.exists(os.path.join(dd, name)):
                    with open(os.path.join(dd, name), 'w') as f:
                        f.write(body)
        # ---- pristine references for every request content of the history (before any operation runs) -------
        contents = {}
        refs = {}
        for op in h['ops']:
            if op['op'] == 'write':
                contents[op['slot']] = (op['kind'], request_text(op['req'], templates))
                c = contents[op['slot']]
                refs[sha(f'{c[0]}\0{c[1]}')] = reference(c[0], c[1], refdir, stats)
            elif op['op'] == 'delete':
                contents[op['slot']] = (contents.get(op['slot'], ('geo', ''))[0], None)
            elif op['op'] in ('run', 'crashed_run'):
                kd, txt = contents[op['slot']]
                if op['entry'] == 'client_params' and txt is not None:
                    txt2 = txt + ''.join(f'{a}, {b}\n' for a, b in op['params'].items())
                    refs[sha(f'{kd}\0{txt2}')] = reference(kd, txt2, refdir, stats)
                if txt is None:
                    refs[sha(f'{kd}\0None')] = reference(kd, None, refdir, stats)
        simcfg = dict(delay_table=[1e-4], compute_table=[0.0], cpu_count=2, repo_src=REPO_SRC,
                      step_cap=payload.get('step_cap', 200000))
        k = K.Kernel(cs, simcfg, sandbox, run_seed=seed)
        k.armed = None
        k.seam_hook = _fault_hook(k)
        tempfile.tempdir = os.path.join(sandbox, 'tmp')
        start = os.path.join(sandbox, h['start_cwd'])
        priv = K.Priv(np.random.RandomState(seed % (1 << 31)).get_state(), _random.Random(seed).getstate(), start, ['caller'])
        SimSet.chooser = lambda n: cs.choose(n, 'setpop')
        ex = Exec(k, cs, h, sandbox, refs, templates, payload, stats)
        fatal = k.run(ex.run, priv)
        SimSet.chooser = None
        tempfile.tempdir = None
        rec['fatal'] = list(fatal) if fatal else None
        rec['events'] = k.seq
        rec['sim_seconds'] = k.now
        rec['digest'] = k.trace_digest.hexdigest()
        rec['fault_fired'] = dict(k.fault_fired)
        rec['probes'] = dict(ex.probes)
        rec['violations'] = ex.viol
        rec['result_digest'] = ex.result_digest.hexdigest()
        rec['ops_done'] = ex.ops_done
        rec['op_kinds'] = ex.op_sig
        rec['stats'] = stats
        rec['reports'] = ex.nreports
        rec['parse_stats'] = ex.parse_stats
        crashed = [(p.name, p.error) for p in k.procs if p.error]
        if crashed:
            rec['harness_error'] = 'history_crashed'
            rec['detail'] = crashed[0][1]
        if fatal:
            rec['harness_error'] = 'fatal_' + fatal[0]
            rec['detail'] = fatal[1]
        if payload.get('want_log'):
            rec['log'] = [list(e) for e in k.log[-payload['want_log']:]]
        rec['choices'] = list(cs.trace)
        rec['wall_s'] = round(K._real['time.monotonic']() - t_start, 3)
        return rec
    finally:
        tempfile.tempdir = None
        SimSet.chooser = None
        shutil.rmtree(sandbox, ignore_errors=True)
        if not os.environ.get('DSIM_REFDIR'):
            shutil.rmtree(refdir, ignore_errors=True)


class Exec:
    def __init__(self, k, cs, h, sandbox, refs, templates, payload, stats):
        self.k, self.cs, self.h, self.sb, self.refs, self.templates = k, cs, h, sandbox, refs, templates
        self.payload = payload
        self.viol = []
        self.probes = {}
        self.result_digest = hashlib.sha256()
        self.ops_done = 0
        self.op_sig = []
        self.contents = {}       # slot -> (kind, text|None)
        self.params_objs = {}    # (slot) -> GeophiresInputParameters reused across calls
        self.clients = None
        self.model_cwd = None
        self.model_argv = None
        self.argv_snapshot = None
        self.nreports = 0
        self.parse_stats = {'fields': 0, 'multi_match_fields': 0, 'table_rows': 0, 'csv_rows': 0, 'parses': 0}
        self.stats = stats
        self.last_failed_client = set()
        self.pending_fault = None
        self.client_text = {}
        self.returned = []        # (result object, canonical parsed form at the time it was returned, op index)
        self.deferred_ids = set() # results whose first read is deferred to the end of the history
        self.prev_parse = None    # (report text, canonical parse) of the previous report of this history
        self.client_seen = {}     # (client, slot) -> content hash of the last successful run through a caching client

    def live(self):
        """seams (and armed faults) are active only while an entry point of the repository runs; the harness's own
        bookkeeping I/O is not part of the simulated system"""
        ex = self

        class _Live:
            def __enter__(self_):
                p = K.cur()
                p.atomic -= 1
                pf = ex.pending_fault
                if pf is not None:
                    if pf['kind'] == 'cancel_deep':
                        ex.k.armed = Fault('cancel_deep', float('inf'))
                        sys.settrace(_deep_tracer(ex.k, ex.k.armed, DEEP_AT[pf['at'] % len(DEEP_AT)]))
                    else:
                        ex.k.armed = Fault(pf['kind'], ex.k.seq + pf['at'])
                    ex.pending_fault = None

            def __exit__(self_, *a):
                sys.settrace(None)
                K.cur().atomic += 1
                return False
        return _Live()

    def V(self, prop, cls, cause, detail):
        self.viol.append({'property': prop, 'cls': cls, 'cause': cause, 'detail': detail, 'op': self.ops_done})

    def Vref(self, prop, cls, cause, detail, kd, txt, aspect, got):
        """a violation judged against the reference: carries what is needed to re-judge it against a same-hash-seed reference"""
        self.V(prop, cls, cause, detail)
        self.viol[-1]['_recheck'] = {'kd': kd, 'txt': txt, 'aspect': aspect, 'got': got}
        cp = getattr(self, 'cur_params', None)
        if cp is not None:
            self.viol[-1]['_recheck'].update(base=cp[0], params=cp[1])

    def probe(self, name):
        self.probes[name] = self.probes.get(name, 0) + 1

    # ---- the reference model of ambient state ----------------------------------------
    def set_model(self):
        self.model_cwd = os.getcwd()
        self.model_argv = sys.argv
        self.argv_snapshot = list(sys.argv)

    @staticmethod
    def _who(op):
        e = op.get('entry', op['op'])
        if e == 'client_params':
            e = 'client'
        return e + ('_failed' if op.get('_failed') else '_ok')

    def check_ambient(self, op, argv_clause=True):
        what = f"after {op['op']}" + (f" via {op.get('entry')}" if op.get('entry') else '')
        try:
            cwd = os.getcwd()
        except OSError:
            cwd = '?'
        if os.path.realpath(cwd) != os.path.realpath(self.model_cwd):
            self.V('C08', 'ambient_cwd', self._who(op),
                   f'{what}: cwd is {cwd.replace(self.sb, "$SB")!r}, caller was in {self.model_cwd.replace(self.sb, "$SB")!r}')
            K._real['os.chdir'](self.model_cwd)
        if argv_clause:
            if sys.argv is not self.model_argv or list(map(str, sys.argv)) != list(map(str, self.argv_snapshot)):
                self.V('C08', 'ambient_argv', self._who(op),
                       f'{what}: sys.argv is {[str(a).replace(self.sb, "$SB") for a in sys.argv]!r}, caller had {self.argv_snapshot!r}')
                sys.argv = self.model_argv
                sys.argv[:] = self.argv_snapshot
        else:
            sys.argv = self.model_argv
            sys.argv[:] = self.argv_snapshot

    # ---- main loop -------------------------------------------------------------------
    def run(self):
        from geophires_x_client import GeophiresXClient
        for _ in range(self.h.get('back_to_earlier_content', 0)):
            self.probe('input_rewritten_back_to_an_earlier_content')
        self.clients = [GeophiresXClient(enable_caching=True), GeophiresXClient(enable_caching=False),
                        GeophiresXClient(enable_caching=True)]
        self.set_model()
        k = self.k
        K.cur().atomic += 1
        skip = set(self.payload.get('skip_ops') or [])
        for opi, op in enumerate(self.h['ops']):
            if opi in skip:
                continue
            self.op_sig.append(op['op'] + (':' + op['entry'] if op.get('entry') else ''))
            kind = op['op']
            if kind == 'write':
                p = os.path.join(self.sb, SLOT_PATHS[op['slot']])
                txt = request_text(op['req'], self.templates)
                if self.contents.get(op['slot'], (None, None))[1] is not None:
                    self.probe('rewrite_of_used_input')
                old_times = None
                if op.get('keep_mtime'):
                    try:
                        st_ = os.stat(p)        # (time stamps in the simulated domain)
                        old_times = (st_.st_atime, st_.st_mtime)
                    except OSError:
                        pass
                with K._real['open'](p, 'w', encoding='utf-8') as f:
                    f.write(txt)
                k.touch_path(p)
                if old_times is not None:
                    # the new content arrives with an OLD modification time (mv of a staged file, cp -p, rsync -t, tar x)
                    os.utime(p, (old_times[0], old_times[1] - 3600.0))
                    self.probe('rewrite_with_older_mtime')
                self.contents[op['slot']] = (op['kind'], txt)
                k.record('op:write', f"slot{op['slot']} {self.templates[op['req']['template']]['name']} {op['req']['tweaks']} {op['req']['poison']}")
            elif kind == 'delete':
                p = os.path.join(self.sb, SLOT_PATHS[op['slot']])
                try:
                    K._real['os.unlink'](p)
                except OSError:
                    pass
                self.contents[op['slot']] = (self.contents.get(op['slot'], ('geo', None))[0], None)
                self.params_objs.pop(op['slot'], None)
                k.record('op:delete', f"slot{op['slot']}")
            elif kind == 'chdir':
                K._real['os.chdir'](os.path.join(self.sb, op['dir']))
                self.model_cwd = os.getcwd()
                k.record('op:chdir', op['dir'])
            elif kind == 'argv':
                sys.argv = list(op['argv'])
                self.set_model()
                k.record('op:argv', repr(op['argv']))
            elif kind == 'clock':
                k.clock_offset += op['delta']
                k.fault_fired['clock_jump'] += 1
                k.record('op:clock', f"{op['delta']:+g}")
                self.after_clock = True
            elif kind == 'fault':
                self.pending_fault = op
                k.record('op:arm', f"{op['kind']} +{op['at']}")
                self.ops_done += 1
                continue
            elif kind == 'mc':
                self.do_mc(op)
            elif kind == 'crashed_run':
                self.do_crashed_run(op)
            elif kind == 'run':
                self.do_run(op)
            if kind in ('run', 'mc'):
                if k.armed is not None and not k.armed.fired:
                    self.probe('fault_not_reached')
                k.armed = None
                self.pending_fault = None
            self.ops_done += 1
        # results handed out earlier must still say what they said when they were returned (a result is a value, not a view
        # of a file that later runs overwrite)
        for res, was, opi in self.returned:
            try:
                now_ = canon_parsed(res.result)
            except Exception as e:  # noqa: BLE001
                now_ = f'raised {type(e).__name__}'
            if now_ != was:
                if id(res) in self.deferred_ids:
                    self.V('C10', 'result_changed_after_return', 'first_read_deferred',
                           f'the result returned by operation {opi}, first read at the end of the history, does not say what the report of its '
                           'request says: ' + _first_diff(now_, was))
                    self.V('C08', 'stale_result', 'first_read_deferred',
                           f'the result returned by operation {opi}, first read at the end of the history, was computed from other content: '
                           + _first_diff(now_, was))
                else:
                    self.V('C10', 'result_changed_after_return', 'later_operations',
                           f'the result returned by operation {opi} reads differently at the end of the history: ' + _first_diff(now_, was))
                break

    # ---- operations ------------------------------------------------------------------
    def do_crashed_run(self, op):
        """the command is executed by a real child process forked from this one (same simulated world: seams, clock, sandbox) that
        disappears with os._exit at its n-th seam event - no finally block runs, no buffer is flushed, no lock is released.  What
        it did to the file system stays; nothing it did to its own memory is seen by the history."""
        k = self.k
        k.record('op:crashed_run', f"{op['entry']} slot{op['slot']} out={op['out']} at +{op['at']}")
        if self.contents.get(op['slot'], (None, None))[1] is None:
            return
        sys.stdout.flush()
        pid = K._real['os.fork']()
        if pid == 0:
            try:
                target = k.seq + op['at']
                prev = k.seam_hook

                def hook(kind, detail):
                    if k.seq >= target:
                        K._real['os._exit'](9)
                    if prev is not None:
                        prev(kind, detail)
                k.seam_hook = hook
                k.armed = None
                self.pending_fault = None
                self.do_run(dict(op, op='run'))
            except BaseException:  # noqa: BLE001
                pass
            finally:
                K._real['os._exit'](0)
        deadline = K._real['time.monotonic']() + 120
        status = None
        while K._real['time.monotonic']() < deadline:
            got, st_ = os.waitpid(pid, os.WNOHANG)
            if got:
                status = st_
                break
            K._real['time.sleep'](0.01)
        if status is None:
            try:
                K._real['os.kill'](pid, 9)
            except OSError:
                pass
            os.waitpid(pid, 0)
            raise K.HarnessError('the crashed-run child did not end within 120 s')
        killed = os.WIFEXITED(status) and os.WEXITSTATUS(status) == 9
        self.probe('earlier_process_killed_mid_run' if killed else 'earlier_process_finished_before_its_kill_point')
        k.fault_fired['process_crash'] += 1 if killed else 0

    def expected(self, kd, txt):
        return self.refs[sha(f'{kd}\0{txt}')]

    def out_paths(self, form, cwd):
        """-> (argument passed to the entry point or None, expected report path, expected json path)"""
        if form == 'absent':
            return None, os.path.join(cwd, 'HDR.out'), os.path.join(cwd, 'HDR.json')
        if form in UNWRITABLE_FORMS:
            name = UNWRITABLE_NAMES[form]
            full = os.path.join(cwd, name)
            if not os.path.lexists(full):
                if form == 'rel_isdir':
                    os.makedirs(full)
                else:
                    os.symlink(os.path.join('no such dir', 'x.out'), full)
            return name, full, os.path.join(cwd, os.path.splitext(name)[0] + '.json')
        name = OUT_NAMES[form]
        if form == 'rel_linkdotdot':
            # <cwd>/outlnk -> <sandbox>/out abs/deep ; 'outlnk/../via.out' is <sandbox>/out abs/via.out for the operating system
            tgt = os.path.join(self.sb, 'out abs', 'deep')
            os.makedirs(tgt, exist_ok=True)
            if not os.path.lexists(os.path.join(cwd, 'outlnk')):
                os.symlink(tgt, os.path.join(cwd, 'outlnk'))
            full = os.path.join(self.sb, 'out abs', 'via.out')
            return name, full, os.path.join(self.sb, 'out abs', 'via.json')
        if form.startswith('abs'):
            arg = os.path.join(self.sb, 'out abs', name)
            full = arg
        else:
            arg = name
            full = os.path.normpath(os.path.join(cwd, name)) if form == 'rel_dotdot' else os.path.join(cwd, name)
        d = os.path.dirname(full)
        os.makedirs(d, exist_ok=True)
        if form == 'rel_symlink' and not os.path.lexists(full):
            # the requested output path is a symbolic link to a file with another name in another directory
            os.makedirs(os.path.join(cwd, 'runs'), exist_ok=True)
            os.symlink(os.path.join('runs', 'r1.out'), full)
        stem = os.path.splitext(os.path.basename(full))[0]
        return arg, full, os.path.join(d, stem + '.json')

    def do_run(self, op):
        from pathlib import Path
        k = self.k
        entry = op['entry']
        kd, txt = self.contents[op['slot']]
        path = os.path.join(self.sb, SLOT_PATHS[op['slot']])
        faulted = self.pending_fault is not None
        if faulted:
            self.probe('run_with_fault_armed')
        if self.last_failed_client and entry in ('client', 'client_params') and op['client'] in self.last_failed_client:
            self.probe('run_after_failed_run_same_client')
        eff = txt
        self.cur_params = None
        if entry == 'client_params' and txt is not None:
            eff = txt + ''.join(f'{a}, {b}\n' for a, b in op['params'].items())
            self.cur_params = (txt, {str(a): str(b) for a, b in op['params'].items()})
        exp = self.expected(kd, eff)
        if entry == 'client' and op['client'] != 1:
            prev = self.client_seen.get((op['client'], op['slot']))
            if prev is not None and prev != sha(str(eff)):
                self.probe('same_client_same_path_after_rewrite')
                if _tail_only_diff(self.client_text.get((op['client'], op['slot'])), eff):
                    self.probe('same_client_requests_differing_only_in_a_list_tail')
        cwd = os.getcwd()
        k.record('op:run', f"{entry} slot{op['slot']} client{op['client']} out={op['out']} expect={exp['outcome']}")
        seq0 = k.seq
        before = {d: list_dir(d) for d in {cwd, os.path.dirname(path), PKG_DIR}}
        outcome, exc, report, parsed, result = 'raised', None, None, None, None
        report_path = json_path = arg = None
        if entry == 'main_argv':
            arg, report_path, json_path = self.out_paths(op['out'] if op['out'].startswith('abs') else 'abs', cwd)
        elif entry == 'cli':
            arg, report_path, json_path = self.out_paths(op['out'], cwd)
        dashdash_first = entry == 'cli' and self.cs.choose(6, 'dashdash') == 5
        relinput = self.cs.choose(3, 'relinput') if entry == 'cli' else 0     # 0 absolute, 1 relative, 2 through a symlinked directory and '..'
        pre = {x: _file_sha(x) for x in (report_path, json_path) if x}
        calc0 = _state.get('calc_done', 0)
        if report_path and pre.get(report_path):
            self.probe('report_already_present_before_run')
        served_from_cache = False
        try:
          with self.live():
            if entry in ('client', 'client_params'):
                from geophires_x_client import GeophiresInputParameters
                cl = self.clients[op['client']]
                if entry == 'client':
                    ip = self.params_objs.get(op['slot']) if op['reuse'] else None
                    if ip is None:
                        ip = GeophiresInputParameters(from_file_path=Path(path))
                        self.params_objs[op['slot']] = ip
                    else:
                        self.probe('params_object_reused')
                else:
                    if txt is None:
                        raise FileNotFoundError(path)
                    ip = GeophiresInputParameters(params=dict(op['params']), from_file_path=Path(path))
                result = cl.get_geophires_result(ip)
                # a result object that was handed out before comes from the client's cache; its output_file_path may since
                # have been overwritten by another request for the same path, so only the result itself is compared then
                served_from_cache = (k.seq == seq0) or any(result is r_ for r_, _, _ in self.returned)
                deferred = bool(op.get('defer')) and exp['outcome'] == 'ok' and not faulted and not served_from_cache
                parsed = None if deferred else canon_parsed(result.result)
                if not served_from_cache:
                    with K._real['open'](result.output_file_path, encoding='utf-8') as f:
                        report = f.read()
                outcome = 'ok'
            elif entry == 'hip':
                from hip_ra import HipRaInputParameters
                from hip_ra_x import HipRaXClient
                result = HipRaXClient().get_hip_ra_result(HipRaInputParameters(Path(path)))
                with K._real['open'](result.output_file_path, encoding='utf-8') as f:
                    report = f.read()
                parsed = json.dumps(result.result, sort_keys=True, default=str)
                outcome = 'ok'
            elif entry == 'main_argv':
                import geophires_x.GEOPHIRESv3 as g3
                # the direct pipeline: the caller passes absolute paths and owns cwd/argv itself (main() changes directory
                # by design; the client and the CLI are the wrappers that stash and restore)
                sys.argv = ['', path, report_path]
                try:
                    g3.main(enable_geophires_logging_config=False)
                    outcome = 'ok'
                finally:
                    K._real['os.chdir'](cwd)
                    sys.argv = self.model_argv
            elif entry == 'cli':
                import runpy
                inp = path
                if relinput == 1:
                    inp = os.path.relpath(path, cwd)
                elif relinput == 2 and os.path.exists(path):
                    # <cwd>/lnkN -> <directory of the input>/.sub ; 'lnkN/../<name>' names the input file for the operating
                    # system, but not for code that collapses '..' lexically
                    sub = os.path.join(os.path.dirname(path), '.sub')
                    os.makedirs(sub, exist_ok=True)
                    lnk = os.path.join(cwd, f"lnk{op['slot']}")
                    if not os.path.lexists(lnk):
                        os.symlink(sub, lnk)
                    inp = os.path.join(f"lnk{op['slot']}", '..', os.path.basename(path))
                # the conventional '--' separator: the only way to give an output name that begins with '-', and legal in front of
                # the positional arguments in general
                if op['out'] == 'rel_dash':
                    sys.argv = ['geophires_x', inp, '--', arg]
                elif dashdash_first:
                    sys.argv = ['geophires_x', '--', inp] + ([arg] if arg is not None else [])
                else:
                    sys.argv = ['geophires_x', inp] + ([arg] if arg is not None else [])
                try:
                    runpy.run_module('geophires_x', run_name='__main__', alter_sys=False)
                    outcome = 'ok'      # falling off the end of __main__ is exit status 0
                except SystemExit as e:
                    outcome = 'ok' if e.code in (0, None) else 'raised'
                    exc = f'SystemExit({e.code})'
        except BaseException as e:  # noqa: BLE001
            if isinstance(e, (K.SimFatal, K.ProcKilled)):
                raise
            outcome = 'raised'
            exc = type(e).__name__
            op['_failed'] = True
            self.exc_msg = str(e)[:200]
        unwritable = entry == 'cli' and op['out'] in UNWRITABLE_FORMS
        if unwritable:
            self.probe('cli_run_with_unwritable_report_path')
        fault = k.armed
        fired = bool(fault and fault.fired)
        if fired:
            self.probe('fault_fired_in_run')
            self.probe(f"fault_{fault.kind}_at_{fault.fired[0]}")
        k.armed = None
        if outcome == 'raised':
            op['_failed'] = True
        rw = (entry, op['client'], op['slot'], sha(str(eff)))
        if getattr(self, 'retry_watch', None) == rw and not fired:
            self.probe('same_request_tried_again_after_a_faulted_attempt_failed')
        self.retry_watch = rw if (fired and outcome == 'raised') else None
        # ---- ambient state (C08) -------------------------------------------------------
        self.check_ambient(op, argv_clause=entry in ('client', 'client_params', 'hip'))
        # ---- outcome class ---------------------------------------------------------------
        if entry in ('client', 'client_params'):
            (self.last_failed_client.add if outcome == 'raised' else self.last_failed_client.discard)(op['client'])
        if unwritable:
            # the simulation may well succeed: the report cannot be written, so the run must not end as a success
            if outcome == 'ok' and exp['outcome'] == 'ok':
                ok_there = False
                try:
                    with K._real['open'](report_path, encoding='utf-8') as f:
                        ok_there = canon_report(f.read(), self.sb) == exp['report']
                except OSError:
                    pass
                if not ok_there:
                    self.V('C20', 'exit_status', 'cli_exit_0_although_the_report_could_not_be_written',
                           f"python -m geophires_x ended with {exc or 'exit status 0'} although no report could be written at "
                           f"{report_path.replace(self.sb, '$SB')} ({op['out']})")
            elif exp['outcome'] != 'ok' and outcome == 'ok' and not fired:
                self.V('C20', 'exit_status', 'cli_exit_0_on_failure', 'exit status 0 although the simulation fails')
        elif not fired:
            if exp['outcome'] == 'ok' and outcome != 'ok':
                cls = 'exit_status' if entry == 'cli' else 'history_dependent_result'
                self.Vref('C20' if entry == 'cli' else 'C08', cls, f'{entry}_unexpected_failure',
                          f"{entry} run of a request that succeeds in a fresh process ended with {exc}: {getattr(self, 'exc_msg', '')}",
                          kd, eff, 'outcome', 'raised')
            elif exp['outcome'] != 'ok' and outcome == 'ok':
                if served_from_cache:
                    self.V('C08', 'stale_result', 'cache_hit_for_failing_content',
                           'client returned a cached result although the current content of the request fails in a fresh process')
                else:
                    if entry == 'cli':
                        self.Vref('C20', 'exit_status', 'cli_exit_0_on_failure',
                                  f"python -m geophires_x ended with {exc or 'exit status 0'} although the simulation fails "
                                  f"({exp.get('exc')}: {exp.get('msg')})", kd, eff, 'outcome', 'ok')
                    else:
                        self.Vref('C08', 'history_dependent_result', f'{entry}_unexpected_success',
                                  f"{entry} run succeeded although the same content fails in a fresh process ({exp.get('exc')}: {exp.get('msg')})",
                                  kd, eff, 'outcome', 'ok')
            elif exp['outcome'] != 'ok' and entry in ('client', 'client_params', 'hip') and exc != 'RuntimeError' \
                    and not (txt is None and entry == 'client_params'):
                # the property does not name an exception type: counted, not judged
                self.probe(f'client_failure_signalled_with_{exc}')
        # ---- files (C20) -----------------------------------------------------------------
        if entry in ('cli', 'main_argv') and fired and outcome == 'ok' and exp['outcome'] == 'ok' and not unwritable:
            # an injected I/O error is outside the quantifier, but a success status is a claim: the report is there and complete
            ok_there = False
            try:
                with K._real['open'](report_path, encoding='utf-8') as f:
                    ok_there = canon_report(f.read(), self.sb) == exp['report']
            except OSError:
                pass
            if not ok_there:
                self.V('C20', 'exit_status', f'{entry}_success_without_complete_report_under_io_fault',
                       f"{entry} ended with {exc or 'success'} after an injected {fault.kind} at {fault.fired[0] if fault.fired else '?'}, "
                       f"but there is no complete report at {report_path.replace(self.sb, '$SB')}")
            else:
                self.probe('success_with_complete_report_despite_fault')
        if entry in ('cli', 'main_argv') and not unwritable:
            rp_exists = os.path.exists(report_path)
            jp_exists = os.path.exists(json_path)
            if outcome == 'ok' and not fired and exp['outcome'] == 'ok':
                if not rp_exists:
                    self.V('C20', 'wrong_output_path', f'{entry}_{op["out"]}', f'no report at {report_path.replace(self.sb, "$SB")}')
                else:
                    with K._real['open'](report_path, encoding='utf-8') as f:
                        report = f.read()
                if not jp_exists:
                    self.V('C20', 'missing_json', f'{entry}_{op["out"]}', f'no JSON at {json_path.replace(self.sb, "$SB")}')
                if op['out'] == 'rel_symlink' and entry == 'cli' and rp_exists:
                    # the requested path designates a file through a symbolic link: the report is written to the file it designates
                    # (what every open() of the path does) - the link is still a link afterwards and its target holds the report
                    tgt_ = os.path.join(os.path.dirname(report_path), 'runs', 'r1.out')
                    if not os.path.islink(report_path) or _file_sha(tgt_) != _file_sha(report_path):
                        self.V('C20', 'wrong_output_path', 'cli_symlink_replaced',
                               f"the output path {report_path.replace(self.sb, '$SB')} is a symbolic link to runs/r1.out: after the run "
                               f"{'it is no longer a link' if not os.path.islink(report_path) else 'the file it designates does not hold the report'}")
            elif exp['outcome'] != 'ok' and not fired:
                # a report may legitimately sit there from an earlier successful run; the failing run must not create or touch one
                if rp_exists and _file_sha(report_path) != pre.get(report_path):
                    if _state.get('calc_hook') and _state.get('calc_done', 0) == calc0:
                        self.V('C20', 'report_written_on_failure', f'{entry}',
                               f'the simulation failed before its calculation completed, yet the run wrote a report at {report_path.replace(self.sb, "$SB")}')
                    else:
                        # the calculation completed and the report writer itself failed part-way: outside the clause
                        self.probe('report_writer_failed_midway')
            # a failing run whose expected outcome is ok but that failed through exit_status is already reported
            if entry == 'cli' and exp['outcome'] == 'ok' and outcome == 'raised' and not fired and rp_exists and not jp_exists:
                self.V('C20', 'missing_json', f'{entry}_{op["out"]}',
                       f'report written at {report_path.replace(self.sb, "$SB")} but no JSON at {json_path.replace(self.sb, "$SB")}; exit {exc}')
        after = {d: list_dir(d) for d in before}
        allowed = set()
        if report_path:
            allowed |= {os.path.normpath(report_path), os.path.normpath(json_path), os.path.realpath(report_path)}
        for d in before:
            new = {os.path.normpath(os.path.join(d, x)) for x in (after[d] - before[d])}
            new = {x for x in new if x not in allowed and not x.endswith('all_messages_conf.log') and '__pycache__' not in x}
            if new and not fired and entry != 'hip' and not unwritable:
                self.V('C20', 'stray_file', entry, f"new files outside the requested output: {sorted(x.replace(self.sb, '$SB') for x in new)[:4]}")
            for x in new:
                try:
                    K._real['os.unlink'](x)
                except OSError:
                    pass
        # ---- results (C08 / C20 / C10) ---------------------------------------------------
        if unwritable:
            self.result_digest.update(f'unwritable:{outcome}'.encode())
        elif fired and outcome == 'ok':
            # an injected I/O fault is outside the property's quantifier: what this very operation returns is not judged
            # (later operations are: a torn result must not be served to an ordinary request)
            self.probe('returned_despite_fault')
            # ... except for this: a success status is a claim also about the JSON next to the report (C10, last clause).  When the
            # complete report of THIS request is where it belongs, the JSON beside it carries the report's quantities - it is not
            # what an earlier run to the same path left there, and it is not missing
            if exp['outcome'] == 'ok' and kd == 'geo' and entry in ('cli', 'main_argv', 'client', 'client_params') and not served_from_cache:
                rp_ = report_path if entry in ('cli', 'main_argv') else (str(result.output_file_path) if result is not None else None)
                rep_ = None
                try:
                    with K._real['open'](rp_, encoding='utf-8') as f:
                        rep_ = f.read()
                except (OSError, TypeError):
                    pass
                if rep_ is not None and canon_report(rep_, self.sb) == exp['report']:
                    jp_ = json_path if entry in ('cli', 'main_argv') else json_beside(rp_)
                    if not os.path.exists(jp_):
                        self.V('C10', 'json_mismatch', 'no_json_beside_a_report_written_under_io_fault',
                               f"{entry} ended with success after an injected {fault.kind} at {fault.fired[0] if fault.fired else '?'}: the complete "
                               f"report is at {rp_.replace(self.sb, '$SB')} but there is no JSON beside it")
                    else:
                        self.probe('json_judged_after_a_faulted_run_that_claimed_success')
                        self.check_json(entry, rep_, jp_, exp, kd, eff)
        elif outcome == 'ok' and exp['outcome'] == 'ok':
            self.nreports += 1
            if parsed is not None and parsed != exp['parsed']:
                cls = 'stale_result' if served_from_cache else ('clock_dependent_result' if getattr(self, 'after_clock', False) and False else 'history_dependent_result')
                self.Vref('C08', cls, f'{entry}_parsed', 'parsed result differs from the same content run alone in a fresh process: ' + _first_diff(parsed, exp['parsed']),
                          kd, eff, 'parsed', sha(parsed))
            if report is not None:
                cr = canon_report(report, self.sb)
                if cr != exp['report']:
                    prop, cls = ('C20', 'entrypoint_report_diff') if entry in ('cli', 'main_argv') else ('C08', 'history_dependent_result')
                    self.Vref(prop, cls, f'{entry}_report', 'report differs from the same content run alone in a fresh process: ' + _first_diff(cr, exp['report']),
                              kd, eff, 'report', sha(cr))
                self.result_digest.update(sha(cr).encode())
                if kd == 'geo':
                    self.check_parser(report)
                    jp_ = json_path if entry in ('cli', 'main_argv') else (json_beside(result.output_file_path) if result is not None else None)
                    if jp_:
                        self.check_json(entry, report, jp_, exp, kd, eff)
                elif kd == 'hip' and result is not None and isinstance(getattr(result, 'result', None), dict):
                    self.check_hip_parser(report, result.result)
            elif parsed is not None:
                self.result_digest.update(sha(parsed).encode())
            if served_from_cache:
                self.probe('served_from_cache')
            if result is not None and parsed is not None and kd == 'geo':
                self.returned.append((result, parsed, self.ops_done))
            elif result is not None and parsed is None and kd == 'geo' and entry in ('client', 'client_params') and exp.get('parsed'):
                # first read deferred to the end of the history: it must then say what the report of THIS request says
                self.returned.append((result, exp['parsed'], self.ops_done))
                self.deferred_ids.add(id(result))
                self.probe('first_read_of_a_result_deferred')
            if entry == 'client' and op['client'] != 1:
                self.client_seen[(op['client'], op['slot'])] = sha(str(eff))
                self.client_text[(op['client'], op['slot'])] = eff
        else:
            self.result_digest.update(f'{outcome}'.encode())
        # (reports stay where they were written: later operations run against a directory that already holds them)

    def check_json(self, entry, report, jp, exp, kd, eff):
        """the JSON written next to the report: the same for every entry point and history (C20 / C08), and carrying the
        quantities the report prints (C10, last clause; per-report invariant)"""
        try:
            with K._real['open'](jp, encoding='utf-8') as f:
                raw = f.read()
        except OSError:
            if exp.get('json') is not None and entry not in ('cli', 'main_argv'):      # (the CLI's missing_json is judged above)
                self.V('C08', 'history_dependent_result', f'{entry}_json', 'no JSON next to the report although a fresh process writes one')
            return
        cj = canon_json(raw, self.sb)
        self.parse_stats['json_files'] = self.parse_stats.get('json_files', 0) + 1
        if exp.get('json') is not None and cj != exp['json']:
            prop, cls = ('C20', 'entrypoint_report_diff') if entry in ('cli', 'main_argv') else ('C08', 'history_dependent_result')
            self.Vref(prop, cls, f'{entry}_json', 'the JSON next to the report differs from the same content run alone in a fresh process: '
                      + _first_diff(cj, exp['json']), kd, eff, 'json', sha(cj))
        self.result_digest.update(sha(cj).encode())
        try:
            jobj = json.loads(raw)
        except ValueError as e:
            self.V('C10', 'json_mismatch', 'unparsable', f'the JSON next to the report does not parse: {str(e)[:120]}')
            return
        if 'unit_spellings' not in _state:
            _state['unit_spellings'] = tokenizer.unit_spellings()
        if 'unit_registry' not in _state:
            try:
                _state['unit_registry'] = tokenizer.unit_registry()
            except Exception:  # noqa: BLE001
                _state['unit_registry'] = None
        problems, st = tokenizer.check_json(report, jobj, _state['unit_spellings'], _state['unit_registry'])
        for kkey in st:
            self.parse_stats[kkey] = self.parse_stats.get(kkey, 0) + st[kkey]
        for cls, cause, detail in problems[:3]:
            self.V('C10', cls, cause, detail)

    def check_hip_parser(self, report, parsed):
        """C10 for the HIP-RA-X client: every 'label: number [unit]' line of the report against the returned dict (independent
        tokenisation: split at the first colon, then on white space)"""
        lines = {}
        for ln in report.split('\n'):
            t = ln.strip()
            if not t or t.startswith('*') or ':' not in t:
                continue
            label, rest = t.split(':', 1)
            toks = rest.split()
            if not toks:
                continue
            try:
                v = float(toks[0])
            except ValueError:
                continue
            lines.setdefault(label.strip(), []).append((v, toks[1] if len(toks) > 1 else None, toks[0]))
        self.parse_stats['hip_fields'] = self.parse_stats.get('hip_fields', 0) + len(lines)
        for label, cands in lines.items():
            got = parsed.get(label)
            if not isinstance(got, dict):
                self.V('C10', 'parse_mismatch', 'hip_field_missing', f'HIP-RA-X report line {label!r} = {cands[0][2]} is not in the client result')
                return
            gv, gu = got.get('value'), got.get('unit')
            if not any((gv == v or (gv != gv and v != v)) and (gu or None) == (u or None) for v, u, _ in cands):
                self.V('C10', 'parse_mismatch', 'hip_field',
                       f'HIP-RA-X field {label!r}: client has {gv!r} {gu!r}, the report prints {[(c[2], c[1]) for c in cands]}')
                return
        extra = [k_ for k_ in parsed if k_ not in lines]
        if extra:
            self.V('C10', 'parse_mismatch', 'hip_field_not_in_report', f'client result has fields no report line carries: {extra[:4]}')

    def check_parser(self, report):
        """C10: order-independence of the parser over every set.pop() order + independent tokenisation"""
        from geophires_x_client import GeophiresXResult
        K_ = self.payload.get('parse_orders', 4)
        p = os.path.join(self.sb, 'tmp', 'parse_me.out')
        with K._real['open'](p, 'w', encoding='utf-8') as f:
            f.write(report)
        first = None
        first_csv = None
        res = None
        kcur = K.cur()
        if kcur is not None:
            kcur.atomic += 1
        try:
            for i in range(K_):
                try:
                    res = GeophiresXResult(p)
                    d = canon_parsed(res.result)
                    c = res.as_csv()
                except Exception as e:  # noqa: BLE001
                    self.V('C10', 'parse_error', type(e).__name__, f'parser raised on a simulator-produced report: {str(e)[:160]}')
                    return
                self.parse_stats['parses'] += 1
                if first is None:
                    first, first_csv = d, c
                elif d != first or c != first_csv:
                    self.V('C10', 'order_dependent_parse', 'set_pop_order',
                           'parsing the same report twice under different set orders gives different structures: ' + _first_diff(d, first))
                    break
        finally:
            if kcur is not None:
                kcur.atomic -= 1
        # (compared without the stamp lines: whether two reports of the same content differ in their 'Calculation Time' is not
        # under the simulation's control)
        if first is not None and self.prev_parse is not None and canon_report(self.prev_parse[0]) != canon_report(report):
            # parser state must be per instance: parsing another report in between must not change what an earlier report
            # parses to
            pp = os.path.join(self.sb, 'tmp', 'parse_prev.out')
            with K._real['open'](pp, 'w', encoding='utf-8') as f:
                f.write(self.prev_parse[0])
            kc = K.cur()
            if kc is not None:
                kc.atomic += 1
            try:
                again = canon_parsed(GeophiresXResult(pp).result)
                self.parse_stats['parses'] += 1
                a_ = json.loads(again)
                b_ = json.loads(self.prev_parse[1])
                a_.get('metadata', {}).pop('output_file_path', None)
                b_.get('metadata', {}).pop('output_file_path', None)
                if a_ != b_:
                    self.V('C10', 'order_dependent_parse', 'other_report_parsed_in_between',
                           'an earlier report parses differently after another report was parsed: ' + _first_diff(again, self.prev_parse[1]))
            except Exception as e:  # noqa: BLE001
                self.V('C10', 'parse_error', type(e).__name__, f're-parsing an earlier report raised: {str(e)[:160]}')
            finally:
                if kc is not None:
                    kc.atomic -= 1
        if first is not None:
            self.prev_parse = (report, first)
        if first is not None and '\r' not in report:
            # the same report as another platform writes it (CR LF line ends): the same fields, the same tables, the same export
            pc = os.path.join(self.sb, 'tmp', 'parse_crlf.out')
            with K._real['open'](pc, 'w', encoding='utf-8', newline='') as f:
                f.write(report.replace('\n', '\r\n'))
            kc = K.cur()
            if kc is not None:
                kc.atomic += 1
            try:
                r2 = GeophiresXResult(pc)
                d2, c2 = canon_parsed(r2.result), r2.as_csv()
                self.parse_stats['parses'] += 1
                self.parse_stats['crlf_parses'] = self.parse_stats.get('crlf_parses', 0) + 1
                if d2 != first:
                    self.V('C10', 'parse_mismatch', 'report_with_crlf_line_ends',
                           'the same report with CR LF line ends parses to another structure: ' + _first_diff(d2, first))
                elif c2.replace('\r\n', '\n') != first_csv.replace('\r\n', '\n'):
                    self.V('C10', 'csv_mismatch', 'report_with_crlf_line_ends', 'the same report with CR LF line ends exports another CSV')
            except Exception as e:  # noqa: BLE001
                self.V('C10', 'parse_error', 'report_with_crlf_line_ends', f'parsing the report with CR LF line ends raised {type(e).__name__}: {str(e)[:160]}')
            finally:
                if kc is not None:
                    kc.atomic -= 1
        if res is not None:
            problems, st = tokenizer.check(report, res)
            for kkey in st:
                self.parse_stats[kkey] = self.parse_stats.get(kkey, 0) + st[kkey]
            for cls, cause, detail in problems[:3]:
                self.V('C10', cls, cause, detail)

    def do_mc(self, op):
        from pathlib import Path
        from geophires_monte_carlo import GeophiresMonteCarloClient
        from geophires_monte_carlo import MonteCarloRequest
        from geophires_monte_carlo import SimulationProgram
        from . import workloads as WL
        k = self.k
        d = os.path.join(self.sb, 'mc')
        os.makedirs(d, exist_ok=True)
        with K._real['open'](os.path.join(d, 'base.txt'), 'w') as f:
            f.write(WL.HIP_BASE)
        rng_ = '130, 170' if op.get('fail') != 'all_iterations' else '1100, 1200'      # (above the allowed maximum: every iteration fails)
        if op.get('fail') == 'no_settings_file':
            try:
                K._real['os.unlink'](os.path.join(d, 'settings.txt'))
            except OSError:
                pass
        else:
            with K._real['open'](os.path.join(d, 'settings.txt'), 'w') as f:
                f.write(f"INPUT, Reservoir Temperature, uniform, {rng_}\nOUTPUT, Producible Heat (reservoir)\nITERATIONS, {op['iterations']}\n")
        k.cfg['cpu_count'] = op['W']
        k.record('op:mc', f"{op['iterations']} iterations W={op['W']}")
        try:
            with self.live():
                if op['iterations'] % 2:
                    # no output file given: the request creates (and later removes) its own temporary directory
                    req_ = MonteCarloRequest(SimulationProgram.HIP_RA_X, Path(d, 'base.txt'), Path(d, 'settings.txt'))
                else:
                    req_ = MonteCarloRequest(SimulationProgram.HIP_RA_X, Path(d, 'base.txt'), Path(d, 'settings.txt'), Path(d, 'MC_Result.txt'))
                GeophiresMonteCarloClient().get_monte_carlo_result(req_)
                del req_
            self.probe('mc_between_runs' if not op.get('fail') else 'mc_expected_to_fail_succeeded')
        except BaseException as e:  # noqa: BLE001
            if isinstance(e, (K.SimFatal, K.ProcKilled)):
                raise
            op['_failed'] = True
            self.probe('mc_failed' if not op.get('fail') else 'mc_failing_request_between_runs')
        self.check_ambient(op, argv_clause=True)


def _tail_only_diff(a, b):
    """two input texts whose effective (name -> line) maps differ in exactly one parameter, and there only after the
    second comma-separated field"""
    if not a or not b:
        return False

    def eff(t):
        d = {}
        for ln in t.split('\n'):
            s_ = ln.split('--')[0].strip()
            if s_ and not s_.startswith('#') and ',' in s_:
                d[s_.split(',')[0].strip()] = [x.strip() for x in s_.split(',')]
        return d
    da, db = eff(a), eff(b)
    diff = [k_ for k_ in set(da) | set(db) if da.get(k_) != db.get(k_)]
    if len(diff) != 1:
        return False
    x, y = da.get(diff[0]), db.get(diff[0])
    return bool(x and y and x[:2] == y[:2])


def _file_sha(p):
    try:
        with K._real['open'](p, 'rb') as f:
            return hashlib.sha256(f.read()).hexdigest()
    except OSError:
        return None


def _first_diff(a, b):
    if a is None or b is None:
        return f'{a is None} / {b is None}'
    n = min(len(a), len(b))
    i = next((j for j in range(n) if a[j] != b[j]), n)
    return f'at char {i}: {a[max(0, i - 40):i + 40]!r} vs {b[max(0, i - 40):i + 40]!r}'
