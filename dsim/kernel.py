"""Simulation kernel: simulated processes (baton-passing threads), discrete-event clock,
file model with user-space write buffers, simulated process pool, dispatching shims.

Exactly one simulated process runs at any instant.  A process gives the baton back at every
seam call; the kernel then decides -- from the ChoiceSource only -- how long that call takes
in simulated time and therefore who performs its next effect first.

Shims are installed once (install()) on stdlib / third-party objects *before* any repository
module is imported.  They call the real function unless the calling thread is a simulated
process of the active kernel.
"""
import atexit as _atexit
import builtins
import collections
import concurrent.futures as _cf
import concurrent.futures._base as _cf_base
import concurrent.futures.process as _cf_process
import concurrent.futures.thread as _cf_thread
import enum
import errno
import hashlib
import io
import os
import pickle
import random as _random
import re
import shutil
import sys
import tempfile
import threading
import time as _time
import uuid as _uuid
import weakref

_real = {}          # name -> original callable
_installed = False
KERNEL = None       # the active Kernel or None
_tls = threading.local()


class HarnessError(Exception):
    pass


class SimFatal(BaseException):
    """raised inside the driver when the run cannot continue (deadlock, step cap, harness error)"""

    def __init__(self, kind, detail=''):
        super().__init__(f'{kind}: {detail}')
        self.kind = kind
        self.detail = detail


class ProcKilled(BaseException):
    """unwinds a simulated process that was killed / terminated"""


def cur():
    """the simulated process running in this thread, or None"""
    k = KERNEL
    if k is None:
        return None
    p = getattr(_tls, 'proc', None)
    if p is None or p.kernel is not k:
        return None
    return p


# --------------------------------------------------------------------------------------
# processes
# --------------------------------------------------------------------------------------
class Priv:
    """process-private state that is global in CPython and therefore swapped at every context switch"""
    __slots__ = ('np_state', 'py_state', 'cwd', 'argv', 'extra', 'modg')

    def __init__(self, np_state, py_state, cwd, argv, extra=None, modg=None):
        self.np_state, self.py_state, self.cwd, self.argv = np_state, py_state, cwd, argv
        self.extra = dict(extra or {})
        self.modg = modg          # {module name: {global name: value}} for the virtualised modules, None = not captured yet

    def fork(self):
        import copy
        modg = None
        if self.modg is not None:
            # fork copies the address space: the child gets its own copy of every module-level variable
            modg = {}
            for mn, d in self.modg.items():
                nd = {}
                for n, v in d.items():
                    try:
                        nd[n] = copy.deepcopy(v)
                    except Exception:  # noqa: BLE001  (uncopyable: shared, like an inherited OS-level resource)
                        nd[n] = v
                modg[mn] = nd
        return Priv(self.np_state, self.py_state, self.cwd, list(self.argv), self.extra, modg)


class Proc:
    def __init__(self, kernel, pid, name, role):
        self.kernel = kernel
        self.pid = pid
        self.name = name
        self.role = role            # 'parent' | 'worker'
        self.sem = threading.Semaphore(0)
        self.thread = None
        self.state = 'new'          # new, ready, blocked, done
        self.ready_at = 0.0
        self.pred = None
        self.deadline = None
        self.priv = None            # Priv (shared by reference between threads of one address space)
        self.image = self           # the process image this thread belongs to (itself unless a pool thread)
        self.dead = False
        self.mp_identity = ()       # multiprocessing's numbering of processes: children of a process are 1, 2, ... as started
        self.mp_children = 0
        self.entropy_ctr = 0
        self.uuid_ctr = 0
        self.files = []             # SimFile objects opened by this process
        self.atexit = []
        self.atomic = 0
        self.speed = 1.0
        self.kill_at_seam = None    # fault: die when own seam counter reaches this
        self.term_pending = False
        self.nseams = 0
        self.exit_kind = None       # 'os._exit' | 'killed' | 'returned'
        self.error = None
        self.task = None            # current pool task index


class Kernel:
    EPOCH = 1_800_000_000.0         # simulated wall clock at t = 0

    def __init__(self, cs, cfg, sandbox, run_seed=0):
        self.cs = cs
        self.cfg = cfg
        self.sandbox = sandbox
        self.run_seed = run_seed
        self.now = 0.0
        self.clock_offset = 0.0
        self.procs = []
        self.current = None
        self.seq = 0
        self.log = []
        self.done_event = threading.Event()
        self.fatal = None
        self.next_pid = 1000
        self.step_cap = cfg.get('step_cap', 400000)
        self.fault_fired = collections.Counter()
        self.probes = collections.Counter()
        self.idstate = {'table': {}, 'free': [], 'next': 0x7f3a00001000}      # simulated object addresses (see _sim_id)
        # file timestamps are a clock too: (st_dev, st_ino) -> (simulated wall-clock time of the last modification, the real
        # st_mtime_ns seen when that was recorded - a different real stamp later means "modified outside the seams")
        self.mtimes = {}
        self.foreign_live_pids = set()
        self.pools = []
        self.path_tokens = {}
        self.rng_objects = []       # module-level generator objects virtualised per process
        self.max_now = 0.0
        self.notes = []             # (kind, payload) observations for the oracles
        self.clock_jump_plan = list(cfg.get('clock_jumps', []))  # [(at_seq, delta)]
        self.stall_plan = dict(cfg.get('stalls', {}))           # seq -> seconds
        self.short_write = cfg.get('short_write', False)
        self.disk_full = cfg.get('disk_full')       # (n, quarter): the n-th append of a worker to a scratch file fails with ENOSPC after quarter/4 of it
        self.disk_full_seen = 0
        self.trace_digest = hashlib.sha256()
        self.seam_hook = None       # callable(kind, detail): may raise an injected fault
        self.task_counter = 0       # pool task ids are unique across all pools of a run
        self.rng_finder = None      # callable() -> generator objects in module globals (re-scanned at every fork)
        self.virtual_modules = []   # modules whose module-level variables are per simulated process (swapped at every switch)
        self.armed = None

    # ---- logging (never draws a choice, never reads a real clock) -------------------
    def norm_path(self, path):
        if isinstance(path, int):
            # a descriptor (os.listdir(fd), os.stat(fd) - shutil.rmtree works that way): its number depends on what else the
            # process happens to have open, the file it names does not
            try:
                s = os.readlink(f'/proc/self/fd/{path}')
            except OSError:
                s = 'fd'
        else:
            s = os.fspath(path)
        if isinstance(s, bytes):
            s = s.decode('utf-8', 'replace')
        if not os.path.isabs(s):
            base = _real['os.getcwd']()
            s = os.path.normpath(os.path.join(base, s))
        sb = self.sandbox
        if s.startswith(sb):
            rel = s[len(sb):].lstrip('/')
            if rel.startswith('tmp/'):
                tok = self.path_tokens.get(rel)
                if tok is None:
                    ext = ''
                    m = re.search(r'(_result)?(\.[A-Za-z0-9]+)$', rel)
                    if m:
                        ext = m.group(0)
                    # only well-known fixed prefixes are kept: everything else in a temporary name may be random (mkdtemp,
                    # uuid, hash of a path)
                    bn = os.path.basename(rel)
                    kind = next((pfx for pfx in ('geophires-input-params', 'geophires-result', 'hip-ra-params', 'hip-ra-result',
                                                 'geophires_monte_carlo', 'MC_', 'parse_me', 'parse_prev', 'replay')
                                 if bn.startswith(pfx)), '')
                    tok = f'tmp/{kind}#{len(self.path_tokens)}{ext}'
                    self.path_tokens[rel] = tok
                return tok
            return '$SB/' + rel
        repo = self.cfg.get('repo_src', '/repo/src')
        if s.startswith(repo):
            return '$REPO/' + s[len(repo):].lstrip('/')
        return s

    def record(self, kind, detail=''):
        p = self.current
        self.seq += 1
        ev = (self.seq, round(self.now, 9), p.pid if p else 0, kind, detail)
        self.log.append(ev)
        self.trace_digest.update(repr(ev).encode())
        return ev

    def note(self, kind, **payload):
        p = self.current
        payload['pid'] = p.pid if p else 0
        payload['t'] = self.now
        payload['seq'] = self.seq
        self.notes.append((kind, payload))

    # ---- process management ---------------------------------------------------------
    def snapshot_private(self, src):
        """what fork() would copy from src right now"""
        if src is self.current:
            self._save_private(src)
        return src.priv.fork()

    def spawn(self, fn, name, role, priv, start_delay=0.0, image=None):
        p = Proc(self, self.next_pid, name, role)
        # process ids are handed out by the OS: consecutive on a quiet machine, with gaps when other processes start in between
        gap = self.cfg.get('pid_gap', 0)
        self.next_pid += 1 + (self.cs.choose(gap + 1, 'pidgap') if gap else 0)
        p.priv = priv
        if image is not None:
            p.image = image
            p.pid = image.pid
        p.ready_at = self.now + start_delay
        p.state = 'ready'
        p.speed = self.cfg.get('speeds', {}).get(len(self.procs), 1.0)
        self.procs.append(p)

        def main():
            _tls.proc = p
            p.sem.acquire()
            try:
                if self.fatal is None:
                    fn()
                    p.exit_kind = p.exit_kind or 'returned'
            except ProcKilled:
                pass
            except SimFatal as e:
                self._set_fatal(e.kind, e.detail)
            except BaseException as e:  # noqa: BLE001 - a simulated process crashed: harness-visible
                import traceback
                p.error = ''.join(traceback.format_exception(type(e), e, e.__traceback__))[-4000:]
                p.exit_kind = 'crashed'
                if p.role == 'worker':
                    # a pool worker that dies outside a task: CPython notices the dead process and breaks the pool
                    try:
                        for pool in self.pools:
                            pool._worker_died(p)
                    except Exception:  # noqa: BLE001
                        pass
            finally:
                self._proc_done(p)

        t = threading.Thread(target=main, name=f'sim-{name}', daemon=True)
        p.thread = t
        (_real.get('Thread.start') or threading.Thread.start)(t)
        return p

    def _set_fatal(self, kind, detail=''):
        if self.fatal is None:
            self.fatal = (kind, detail)
        self.done_event.set()

    def _proc_done(self, p):
        p.state = 'done'
        if self.fatal is not None:
            self.done_event.set()
            return
        try:
            self._dispatch(p, leaving=True)
        except SimFatal as e:
            self._set_fatal(e.kind, e.detail)

    def proc_exit(self, p, kind):
        """process image disappears: what was only in user-space buffers is lost"""
        p.exit_kind = kind
        if p.image is not p:
            self.record('exit', kind)
            return
        for wr_ in p.files:
            f = wr_()
            if f is not None and not f.closed:
                lost = f._discard()
                if lost:
                    self.note('buffer_lost', path=self.norm_path(f.name), nbytes=lost, task=f._task, how=kind)
                    self.probes['buffer_lost_at_exit'] += 1
        self.record('exit', kind)

    # ---- scheduling -----------------------------------------------------------------
    def _runnable(self):
        out = []
        for q in self.procs:
            if q.state == 'ready':
                out.append(q)
            elif q.state == 'blocked':
                if q.pred():
                    out.append(q)
                elif q.deadline is not None:
                    out.append(q)  # becomes runnable at its deadline
        return out

    def _eff_ready(self, q):
        if q.state == 'blocked' and not q.pred():
            return q.deadline
        return q.ready_at

    def _dispatch(self, p, leaving=False):
        """give the baton to the next process; returns when p holds it again"""
        if self.fatal is not None:
            if leaving:
                self.done_event.set()
                return
            raise ProcKilled()
        cands = self._runnable()
        if not cands:
            if all(q.state == 'done' for q in self.procs):
                self.current = None
                self.done_event.set()
                return
            raise SimFatal('deadlock', ','.join(f'{q.name}:{q.state}' for q in self.procs if q.state != 'done'))
        tmin = min(self._eff_ready(q) for q in cands)
        tied = [q for q in cands if self._eff_ready(q) <= tmin]
        q = tied[self.cs.choose(len(tied), 'tie')] if len(tied) > 1 else tied[0]
        if tmin > self.now:
            self.now = tmin
        if q.state == 'blocked':
            q.state = 'ready'
        if q is p and not leaving:
            return
        # hand over
        if p is None or p.priv is not q.priv:
            if p is not None:
                self._save_private(p)
            self._restore_private(q)
        self.current = q
        q.sem.release()
        if not leaving:
            p.sem.acquire()
            if self.fatal is not None:
                raise ProcKilled()

    def _save_private(self, p):
        import numpy as np
        v = p.priv
        v.np_state = np.random.get_state()
        v.py_state = _random.getstate()
        v.cwd = _real['os.getcwd']()
        v.argv = sys.argv
        for o in self.rng_objects:
            v.extra[id(o)] = _get_rng_state(o)
        if self.virtual_modules:
            v.modg = {m.__name__: {n: x for n, x in vars(m).items() if _is_process_state(n, x)} for m in self.virtual_modules}
            # class attributes that hold state (a class-level cache, counter, flag) are per process as well
            for c in self._virtual_classes():
                v.modg[f'class:{c.__module__}.{c.__qualname__}'] = {n: x for n, x in vars(c).items() if _is_class_state(n, x)}

    def _virtual_classes(self):
        vc = getattr(self, '_vclasses', None)
        if vc is None:
            vc = []
            seen = set()
            for m in self.virtual_modules:
                for x in list(vars(m).values()):
                    if isinstance(x, type) and getattr(x, '__module__', None) == m.__name__ and id(x) not in seen \
                            and not issubclass(x, (BaseException, enum.Enum)):
                        seen.add(id(x))
                        vc.append(x)
            vc.sort(key=lambda c: (c.__module__, c.__qualname__))
            self._vclasses = vc
        return vc

    def _restore_private(self, q):
        import numpy as np
        v = q.priv
        np.random.set_state(v.np_state)
        _random.setstate(v.py_state)
        try:
            _real['os.chdir'](v.cwd)
        except OSError:
            pass
        sys.argv = v.argv
        for o in self.rng_objects:
            st = v.extra.get(id(o))
            if st is not None:
                _set_rng_state(o, st)
        if self.virtual_modules and v.modg is not None:
            for m in self.virtual_modules:
                want = v.modg.get(m.__name__)
                if want is None:
                    continue
                d = vars(m)
                for n in [n for n, x in d.items() if _is_process_state(n, x) and n not in want]:
                    del d[n]                      # a variable another process created after the fork
                d.update(want)
            for c in self._virtual_classes():
                want = v.modg.get(f'class:{c.__module__}.{c.__qualname__}')
                if want is None:
                    continue
                for n in [n for n, x in vars(c).items() if _is_class_state(n, x) and n not in want]:
                    try:
                        delattr(c, n)
                    except (AttributeError, TypeError):
                        pass
                for n, x in want.items():
                    if vars(c).get(n, _MISSING) is not x:
                        try:
                            setattr(c, n, x)
                        except (AttributeError, TypeError):
                            pass

    def delay(self, p, kind):
        cfg = self.cfg
        if kind == 'compute':
            tab = cfg['compute_table']
            d = tab[self.cs.choose(len(tab), 'dcompute')]
        else:
            tab = cfg['delay_table']
            d = tab[self.cs.choose(len(tab), 'd')]
        return d * p.speed

    def seam(self, kind, detail='', extra=0.0):
        """a system call by the current simulated process: costs simulated time, is a pre-emption point.
        Returns when the call takes effect (the caller then performs the real operation atomically)."""
        p = cur()
        if p is None:
            return None
        if p.dead:
            raise ProcKilled()
        if p.atomic:
            return None
        if self.seq >= self.step_cap:
            raise SimFatal('step_cap', f'{self.seq} events')
        p.nseams += 1
        if p.term_pending or (p.kill_at_seam is not None and p.nseams >= p.kill_at_seam):
            self._die(p)
        d = self.delay(p, kind) + extra
        st = self.stall_plan.get(self.seq)
        if st:
            d += st
            self.fault_fired['stall'] += 1
            self.record('fault:stall', f'{st:g}s')
        p.ready_at = self.now + d
        self._dispatch(p)
        if p.term_pending:
            self._die(p)
        while self.clock_jump_plan and self.seq >= self.clock_jump_plan[0][0]:
            _, delta = self.clock_jump_plan.pop(0)
            self.clock_offset += delta
            self.fault_fired['clock_jump'] += 1
            self.record('fault:clock_jump', f'{delta:+g}s')
        self.record(kind, detail)
        if self.seam_hook is not None:
            self.seam_hook(kind, detail)
        return p

    def _die(self, p):
        how = 'terminated' if p.term_pending and p.kill_at_seam is None else 'killed'
        if how == 'killed':
            self.fault_fired['driver_crash' if p.role == 'parent' else 'kill'] += 1
        p.kill_at_seam = None
        p.dead = True
        self.proc_exit(p, how)
        if p.role == 'parent':
            # the whole job dies (kill of the process group, Ctrl-C, reboot): the workers of its pools go with it - each at its
            # next system call, with whatever sits in its buffers
            for pool in self.pools:
                if pool.owner is p:
                    pool.broken = True
                    pool.queue.clear()
                    for w in pool.workers:
                        if w.state != 'done' and not w.dead:
                            w.term_pending = True
                            if w.state == 'blocked':
                                w.pred = lambda: True
        for pool in self.pools:
            pool._worker_died(p)
        raise ProcKilled()

    def block(self, pred, timeout=None, what=''):
        p = cur()
        if p is None:
            raise HarnessError('block outside a simulated process')
        if pred():
            return True
        p.state = 'blocked'
        p.pred = pred
        p.deadline = None if timeout is None else self.now + timeout
        self.record('block', what)
        self._dispatch(p)
        p.pred = None
        p.deadline = None
        p.state = 'ready'
        return pred()

    def wall(self):
        return self.EPOCH + self.now + self.clock_offset

    # ---- file timestamps ---------------------------------------------------------------
    def touch_fd(self, fd, t=None):
        """the file behind fd was just modified through a seam"""
        try:
            st = _real['os.fstat'](fd)
        except OSError:
            return
        self.mtimes[(st.st_dev, st.st_ino)] = (self.wall() if t is None else t, st.st_mtime_ns)

    def touch_path(self, path, t=None):
        """the harness (or an unmodelled path) modified `path`; t: the modification time it should carry"""
        try:
            st = _real['os.stat'](path)
        except OSError:
            return
        self.mtimes[(st.st_dev, st.st_ino)] = (self.wall() if t is None else t, st.st_mtime_ns)

    def file_time(self, st, path):
        key = (st.st_dev, st.st_ino)
        e = self.mtimes.get(key)
        if e is None or e[1] != st.st_mtime_ns:
            # never seen, or changed behind the seams: inside the sandbox it is taken as modified at the moment it is first
            # looked at; anything else (the repository, installed packages) is a day older than the start of the run
            inside = isinstance(path, int)
            if not inside and path is not None:
                try:
                    inside = os.path.abspath(os.fsdecode(os.fspath(path))).startswith(self.sandbox)
                except (TypeError, ValueError):
                    inside = False
            e = (self.wall() if inside else self.EPOCH + self.clock_offset - 86400.0, st.st_mtime_ns)
            self.mtimes[key] = e
        return e[0]

    def sim_stat(self, st, path):
        t = self.file_time(st, path)
        red = st.__reduce__()[1]
        tup, extra = list(red[0]), dict(red[1])
        tup[7] = tup[8] = tup[9] = int(t)
        ns = int(round(t * 1e9))
        extra.update(st_atime=t, st_mtime=t, st_ctime=t, st_atime_ns=ns, st_mtime_ns=ns, st_ctime_ns=ns)
        return os.stat_result(tup, extra)

    # ---- entropy --------------------------------------------------------------------
    def entropy(self, p, n):
        out = b''
        while len(out) < n:
            p.entropy_ctr += 1
            out += hashlib.sha256(f'{self.run_seed}/{p.pid}/{p.entropy_ctr}'.encode()).digest()
        return out[:n]

    # ---- driver ---------------------------------------------------------------------
    def run(self, parent_fn, priv, others=None):
        """run parent_fn as the parent simulated process; returns when every process is done
        or a fatal condition was reached."""
        global KERNEL
        KERNEL = self
        try:
            p = self.spawn(parent_fn, 'parent', 'parent', priv)
            for j, (fn2, priv2) in enumerate(others or []):
                # further independent processes started by "the shell" at the same instant (e.g. a second driver)
                self.spawn(fn2, f'parent{j + 2}', 'parent', priv2)
            self._restore_private(p)
            self.current = p
            p.sem.release()
            self.done_event.wait()
        finally:
            KERNEL = None
        return self.fatal


def scratch_root():
    """tmpfs when there is one (fast, and nothing is left on disk), otherwise a fixed directory under /var/tmp"""
    if os.path.isdir('/dev/shm') and os.access('/dev/shm', os.W_OK | os.X_OK):
        return '/dev/shm'
    d = '/var/tmp/dsim-scratch'
    os.makedirs(d, exist_ok=True)
    return d


def make_sandbox(tag, seed):
    """per-run scratch directory with a name that is a pure function of the seed (digits only vary), so that a
    replay sees byte-identical paths; the suffix only grows when the same seed is being run concurrently"""
    k = 0
    while True:
        d = f'{scratch_root()}/dsim-{tag}-{seed}-{k}'
        try:
            os.mkdir(d, 0o700)
            return d
        except FileExistsError:
            k += 1


def _is_process_state(name, value):
    """module-level variables that make up a process's state: everything except code objects, modules and dunders"""
    import types
    if name.startswith('__') and name.endswith('__'):
        return False
    return not isinstance(value, (types.FunctionType, types.BuiltinFunctionType, types.ModuleType, type, types.MethodType))


_MISSING = object()


def _is_class_state(name, value):
    """class attributes that are data (a cache, a counter, a flag, a default container), not behaviour"""
    import types
    if name.startswith('__') and name.endswith('__'):
        return False
    if name in ('_abc_impl',):
        return False
    return not isinstance(value, (types.FunctionType, types.BuiltinFunctionType, types.ModuleType, type, types.MethodType,
                                  classmethod, staticmethod, property, types.MemberDescriptorType, types.GetSetDescriptorType,
                                  types.WrapperDescriptorType, types.MethodDescriptorType)) and not hasattr(value, '__get__')


def _get_rng_state(o):
    import numpy as np
    if isinstance(o, np.random.RandomState):
        return o.get_state()
    if isinstance(o, np.random.Generator):
        return o.bit_generator.state
    if isinstance(o, _random.Random):
        return o.getstate()
    return None


def _set_rng_state(o, st):
    import numpy as np
    if isinstance(o, np.random.RandomState):
        o.set_state(st)
    elif isinstance(o, np.random.Generator):
        o.bit_generator.state = st
    elif isinstance(o, _random.Random):
        o.setstate(st)


# --------------------------------------------------------------------------------------
# file model
# --------------------------------------------------------------------------------------
class SimFile:
    """A file opened for writing by a simulated process.  Bytes sit in a user-space buffer until
    flush()/close(); each transfer to the kernel is one seam event.  _discard() models the process
    image disappearing (os._exit, SIGKILL)."""

    BUFSIZE = 8192

    def __init__(self, kernel, proc, path, mode, fd, encoding, binary):
        self._k = kernel
        self._p = proc
        self.name = path
        self.mode = mode
        self._fd = fd
        # ('locale' is what pathlib.Path.open passes for a text file opened without an explicit encoding)
        self._enc = 'utf-8' if encoding in (None, 'locale') else encoding
        self._bin = binary
        self._buf = []
        self._n = 0
        self.closed = False
        self._dead = False
        self._task = proc.task      # pool task during which the file was opened

    # -- file API ---------------------------------------------------------------------
    def writable(self):
        return True

    def readable(self):
        return False

    def seekable(self):
        return False

    def isatty(self):
        return False

    @property
    def encoding(self):
        return None if self._bin else self._enc

    def fileno(self):
        if self.closed:
            raise ValueError('I/O operation on closed file')
        return self._fd

    def write(self, s):
        if self.closed:
            raise ValueError('I/O operation on closed file.')
        if self._bin:
            if isinstance(s, str):
                raise TypeError("a bytes-like object is required, not 'str'")
            b = bytes(s)
        else:
            if not isinstance(s, str):
                raise TypeError(f'write() argument must be str, not {type(s).__name__}')
            b = s.encode(self._enc)
        if self._dead:
            return len(s)
        self._buf.append(b)
        self._n += len(b)
        if self._n >= self.BUFSIZE:
            self._flush()
        return len(s)

    def writelines(self, lines):
        for ln in lines:
            self.write(ln)

    def flush(self):
        if self.closed:
            raise ValueError('I/O operation on closed file.')
        self._flush()

    def _flush(self):
        if self._dead or not self._buf:
            return
        data = b''.join(self._buf)
        self._buf = []
        self._n = 0
        k = self._k
        owner = cur()
        while data:
            n = len(data)
            if owner is not None and k.short_write and len(data) > 1 and k.cs.coin(1, 4, 'short'):
                n = 1 + k.cs.choose(len(data) - 1, 'shortn')
                k.fault_fired['short_write'] += 1
            full = False
            if owner is not None and k.disk_full is not None and owner.role == 'worker' and 'a' in self.mode \
                    and k.norm_path(self.name).startswith('tmp/'):
                # fault: the disk fills up while a worker appends to a scratch file - the write syscall stores a prefix (possibly
                # nothing) and fails with ENOSPC
                k.disk_full_seen += 1
                if k.disk_full_seen == k.disk_full[0]:
                    full = True
                    n = (len(data) * k.disk_full[1]) // 4
            if owner is not None:
                k.seam('write', f'{k.norm_path(self.name)} {n}B' + (' ENOSPC' if full else ''))
            if self._dead:
                return
            if full:
                k.fault_fired['disk_full'] += 1
                if n:
                    _real['os.write'](self._fd, data[:n])
                    k.touch_fd(self._fd)
                    k.note('write', path=k.norm_path(self.name), data=data[:n], task=owner.task)
                k.note('disk_full', path=k.norm_path(self.name), task=owner.task, kept=n, lost=len(data) - n)
                raise OSError(errno.ENOSPC, os.strerror(errno.ENOSPC))
            chunk, data = data[:n], data[n:]
            _real['os.write'](self._fd, chunk)
            k.touch_fd(self._fd)
            if owner is not None:
                k.note('write', path=k.norm_path(self.name), data=chunk, task=owner.task)

    def close(self):
        if self.closed:
            return
        try:
            self._flush()
            if cur() is not None and not self._dead:
                self._k.seam('close', self._k.norm_path(self.name))
        finally:
            # (a failing flush still closes the descriptor, and close() raises what the flush raised)
            if self._k.fatal is None or True:
                self.closed = True
                if not self._dead:
                    try:
                        _real['os.close'](self._fd)
                    except OSError:
                        pass

    def _discard(self):
        lost = self._n
        self._buf = []
        self._n = 0
        self._dead = True
        try:
            _real['os.close'](self._fd)
        except OSError:
            pass
        return lost

    def __enter__(self):
        return self

    def __exit__(self, *a):
        self.close()

    def __del__(self):
        # CPython closes (and therefore flushes) an unreferenced file object; only meaningful while
        # the owning process is alive and running.
        try:
            if not self.closed and not self._dead and cur() is not None and cur().image is self._p.image:
                self.close()
        except BaseException:  # noqa: BLE001
            pass


class SimRWFile:
    """A file opened for update ('r+', 'w+', 'a+', 'x'): no user-space buffering is modelled (every write goes straight
    through), but every operation is a seam, so that another process can act between a seek and the write that relies on it."""

    def __init__(self, kernel, proc, path, mode, raw):
        self._k, self._p, self.name, self.mode, self._f = kernel, proc, path, mode, raw
        self._task = proc.task
        self._dead = False

    @property
    def closed(self):
        return self._f.closed

    def _op(self, what, detail=''):
        if cur() is not None and not self._dead:
            self._k.seam('rw-' + what, f'{self._k.norm_path(self.name)} {detail}'.strip())

    def seek(self, *a):
        self._op('seek', ' '.join(map(str, a)))
        return self._f.seek(*a)

    def tell(self):
        return self._f.tell()

    def read(self, *a):
        self._op('read')
        return self._f.read(*a)

    def readline(self, *a):
        self._op('read')
        return self._f.readline(*a)

    def readlines(self, *a):
        self._op('read')
        return self._f.readlines(*a)

    def __iter__(self):
        self._op('read')
        return iter(self._f.readlines())

    def write(self, s):
        self._op('write', f'{len(s)}')
        if self._dead:
            return len(s)
        pos = None
        try:
            pos = self._f.tell()
        except (OSError, ValueError):
            pass
        n = self._f.write(s)
        if hasattr(self._f, 'flush'):
            self._f.flush()
        self._k.touch_fd(self._f.fileno())
        owner = cur()
        if owner is not None:
            data = s if isinstance(s, (bytes, bytearray)) else str(s).encode('utf-8', 'replace')
            self._k.note('write', path=self._k.norm_path(self.name), data=bytes(data), task=owner.task, at=pos, rw=True)
        return n

    def writelines(self, lines):
        for ln in lines:
            self.write(ln)

    def truncate(self, *a):
        self._op('truncate')
        r = self._f.truncate(*a)
        self._k.touch_fd(self._f.fileno())
        return r

    def flush(self):
        self._op('flush')
        return self._f.flush()

    def fileno(self):
        return self._f.fileno()

    def readable(self):
        return self._f.readable()

    def writable(self):
        return self._f.writable()

    def seekable(self):
        return self._f.seekable()

    def isatty(self):
        return False

    def close(self):
        if not self._f.closed:
            self._op('close')
            self._f.close()

    def _discard(self):
        self._dead = True
        try:
            self._f.close()
        except OSError:
            pass
        return 0

    def __enter__(self):
        return self

    def __exit__(self, *a):
        self.close()

    def __getattr__(self, n):
        return getattr(self._f, n)


_WRITE_RE = re.compile(r'[wax+]')


def _sim_open(file, mode='r', buffering=-1, encoding=None, errors=None, newline=None, closefd=True, opener=None):
    p = cur()
    if p is None or p.atomic or isinstance(file, int) or opener is not None or _incidental(file):
        return _real['open'](file, mode, buffering, encoding, errors, newline, closefd, opener)
    k = p.kernel
    path = os.fspath(file)
    if isinstance(path, bytes):
        path = path.decode()
    if path.endswith('.log') and os.path.abspath(path).startswith(k.cfg.get('repo_src', '/repo/src')):
        # logging.conf's FileHandler appends all_messages_conf.log in the package directory: designed behaviour,
        # not part of any property; keep the repository clean
        return _real['open'](os.devnull, mode, buffering, encoding, errors, newline, closefd, opener)
    if not _WRITE_RE.search(mode):
        detail = k.norm_path(path)
        k.seam('open-r', detail)
        if os.path.basename(path) == '.lock' or path.endswith('.lock'):
            try:
                with _real['open'](path, 'rb') as f:
                    c = f.read().split(b'\n')
                holder = c[2].decode() if len(c) >= 3 else 'free'
            except OSError:
                holder = 'absent'
            k.note('lock_read', holder=holder)
        return _real['open'](file, mode, buffering, encoding, errors, newline, closefd, opener)
    if '+' in mode or 'x' in mode or buffering == 0:
        k.seam('open-rw', f'{k.norm_path(path)} {mode}')
        if 'b' in mode:
            raw = _real['open'](file, mode, 0)
        else:
            raw = _real['open'](file, mode, buffering, encoding, errors, newline, closefd, opener)
        if 'w' in mode or 'x' in mode:
            k.touch_fd(raw.fileno())
        f = SimRWFile(k, p, path, mode, raw)
        p.image.files.append(weakref.ref(f))
        return f
    k.seam('open-w', f'{k.norm_path(path)} {mode}')
    flags = os.O_WRONLY | os.O_CREAT | os.O_CLOEXEC
    if 'a' in mode:
        flags |= os.O_APPEND
    else:
        flags |= os.O_TRUNC
    fd = _real['os.open'](path, flags, 0o666)
    if 'a' not in mode:
        k.touch_fd(fd)      # created or truncated now
    f = SimFile(k, p, path, mode, fd, encoding, 'b' in mode)
    # (the file table refers to its files weakly: a file object nobody refers to any more is closed - and therefore flushed - by
    # CPython at once, `open(p, 'a').write(x)` does reach the disk)
    p.image.files.append(weakref.ref(f))
    return f


# --------------------------------------------------------------------------------------
# simulated process pool
# --------------------------------------------------------------------------------------
def _fdone(f):
    """state of a future as the kernel sees it (no scheduling point)"""
    return _cf.Future.done(f)


class SimFuture(_cf.Future):
    """In CPython results are delivered to the parent's futures by the executor's manager *thread*, i.e. asynchronously
    to the parent's main thread: every time the parent looks at a future is therefore a scheduling point."""

    def _peek(self, what):
        p = cur()
        if p is not None and not p.atomic:
            p.kernel.seam('future-' + what, '')

    def done(self):
        self._peek('done')
        return _cf.Future.done(self)

    def running(self):
        self._peek('running')
        return _cf.Future.running(self)

    def cancelled(self):
        self._peek('cancelled')
        return _cf.Future.cancelled(self)

    def _sim_wait(self, timeout):
        p = cur()
        if p is not None and not _fdone(self):
            p.kernel.block(lambda: _fdone(self), timeout=timeout, what='future')

    def result(self, timeout=None):
        self._sim_wait(timeout)
        if cur() is not None:
            if not _fdone(self):
                raise _cf.TimeoutError()
            return super().result(0)
        return super().result(timeout)

    def exception(self, timeout=None):
        self._sim_wait(timeout)
        if cur() is not None:
            if not _fdone(self):
                raise _cf.TimeoutError()
            return super().exception(0)
        return super().exception(timeout)

    # CPython delivers the result of a pool task in the executor's manager THREAD of the process that owns the pool:
    # Future.set_result() first records the state and wakes everybody who waits for the future (result(), wait(),
    # as_completed()) and only THEN runs the done-callbacks - in the manager thread, concurrently with the main thread, which may
    # already have gone on.  The simulated worker performs the state change itself (one step with its 'result' event); callbacks
    # that are registered at that moment are handed to a simulated manager thread of the owning process and run there after a
    # scheduling point.  (Thread pools run callbacks in the worker thread, which already is a thread of the owning process.)
    def _finish(self, setter, value):
        pool = getattr(self, '_sim_pool', None)
        p = cur()
        cbs = None
        if p is not None and pool is not None and not pool.shares_state and self._done_callbacks:
            with self._condition:
                cbs, self._done_callbacks = self._done_callbacks, []
        setter(self, value)
        if cbs:
            pool._defer_callbacks(self, cbs)

    def set_result(self, result):
        self._finish(_cf.Future.set_result, result)

    def set_exception(self, exception):
        self._finish(_cf.Future.set_exception, exception)


class _Task:
    __slots__ = ('idx', 'fn', 'args', 'kwargs', 'future', 'worker', 'outcome', 'payload')

    def __init__(self, idx, fn, args, kwargs, future):
        self.idx, self.fn, self.args, self.kwargs, self.future = idx, fn, args, kwargs, future
        self.worker = None
        self.outcome = None


class SimPool:
    """Model of concurrent.futures.ProcessPoolExecutor on CPython 3.12 / Linux / fork."""

    shares_state = False

    def __init__(self, max_workers=None, mp_context=None, initializer=None, initargs=(), *,
                 max_tasks_per_child=None, thread_name_prefix=''):
        p = cur()
        self.k = p.kernel
        k = self.k
        if max_workers is None:
            max_workers = _sim_cpu_count() or 1
        if max_workers <= 0:
            raise ValueError('max_workers must be greater than 0')
        self.W = max_workers
        self.initializer = initializer
        self.initargs = initargs
        self.max_tasks_per_child = max_tasks_per_child
        self.start_method = 'fork'
        if mp_context is not None:
            try:
                self.start_method = mp_context.get_start_method()
            except Exception:  # noqa: BLE001
                pass
        elif max_tasks_per_child is not None:
            self.start_method = 'spawn'
        if max_tasks_per_child is not None and self.start_method == 'fork':
            raise ValueError("max_tasks_per_child is incompatible with the 'fork' multiprocessing start method")
        self.preloaded = False
        if self.start_method == 'forkserver':
            try:
                import multiprocessing.forkserver as _fs
                self.preloaded = bool(_fs._forkserver._preload_modules)
            except Exception:  # noqa: BLE001
                pass
        self._nspawn = 0
        self.queue = collections.deque()
        self.tasks = []
        self.workers = []
        self.shutdown_flag = False
        self.broken = False
        self.owner = p
        self.cbq = collections.deque()      # (future, callbacks) waiting for the owner's manager thread
        self.manager = None
        k.pools.append(self)
        k.record('pool', f'W={self.W}')

    # -- API --------------------------------------------------------------------------
    def submit(self, fn, /, *args, **kwargs):
        k = self.k
        if self.broken:
            raise _cf_process.BrokenProcessPool('A child process terminated abruptly, the process pool is not usable anymore')
        if self.shutdown_flag:
            raise RuntimeError('cannot schedule new futures after shutdown')
        fut = SimFuture()
        fut._sim_pool = self
        try:
            blob = pickle.dumps((fn, args, kwargs))
        except Exception as e:  # noqa: BLE001 - real pool fails the future with the pickling error
            fut.set_exception(e)
            return fut
        t = _Task(k.task_counter, None, None, None, fut)
        k.task_counter += 1
        t.payload = blob
        self.tasks.append(t)
        self.queue.append(t)
        k.seam('submit', f'task{t.idx}')
        if not self.workers:
            self._launch_all()
        return fut

    def map(self, fn, *iterables, timeout=None, chunksize=1):
        if chunksize < 1:
            raise ValueError('chunksize must be >= 1.')
        end = None if timeout is None else self.k.now + timeout
        if chunksize > 1:
            import itertools
            chunks = []
            it = zip(*iterables)
            while True:
                c = tuple(itertools.islice(it, chunksize))
                if not c:
                    break
                chunks.append(c)
            futs = [self.submit(_process_chunk, fn, c) for c in chunks]
            chained = True
        else:
            futs = [self.submit(fn, *a) for a in zip(*iterables)]
            chained = False

        def gen():
            try:
                futs.reverse()
                while futs:
                    f = futs.pop()
                    r = f.result() if end is None else f.result(max(0.0, end - self.k.now))
                    if chained:
                        yield from r
                    else:
                        yield r
            finally:
                for f in futs:
                    f.cancel()
        return gen()

    def shutdown(self, wait=True, *, cancel_futures=False):
        k = self.k
        if cancel_futures:
            for t in list(self.queue):
                if t.future.cancel():
                    self.queue.remove(t)
        self.shutdown_flag = True
        if cur() is not None:
            k.seam('shutdown', '')
            if wait and self.workers:
                k.block(self._joined, what='pool-join')

    def __enter__(self):
        return self

    def __exit__(self, *a):
        self.shutdown(wait=True)
        return False

    # -- internals --------------------------------------------------------------------
    def _joined(self):
        return all(w.state == 'done' for w in self.workers) and (self.manager is None or self.manager.state == 'done')

    def _defer_callbacks(self, fut, cbs):
        k = self.k
        self.cbq.append((fut, cbs))
        k.probes['done_callbacks_handed_to_the_manager_thread'] += 1
        if self.manager is None or self.manager.state == 'done':
            owner = self.owner
            pool = self

            def manager_main():
                p = cur()
                while True:
                    if not pool.cbq:
                        if owner.image.dead or all(w.state == 'done' for w in pool.workers):
                            break
                        k.block(lambda: bool(pool.cbq) or owner.image.dead or all(w.state == 'done' for w in pool.workers),
                                what='manager-idle')
                        continue
                    f, cs_ = pool.cbq.popleft()
                    k.seam('callbacks', '')
                    if owner.image.dead:
                        break
                    for cb in cs_:
                        try:
                            cb(f)
                        except Exception:  # noqa: BLE001  (CPython logs 'exception calling callback' and goes on)
                            k.probes['done_callback_raised'] += 1
                k.proc_exit(p, 'thread-end')
            self.manager = k.spawn(manager_main, f'mgr{len(k.pools)}', 'manager', owner.priv,
                                   start_delay=k.delay(k.current, 'fork'), image=owner.image)

    def _child_priv(self, snap):
        v = snap.fork()
        if self.start_method == 'forkserver' and self.preloaded:
            # workers are forks of the fork server, which imported the preloaded modules (and with them numpy) ONCE: every
            # worker starts from the server's generator state; the server lives as long as the process that started it, so
            # later pools of the same process get the same state again
            import numpy as np
            k = self.k
            own = self.owner.image
            st = getattr(own, 'forkserver_state', None)
            if st is None:
                h = hashlib.sha256(f'forkserver/{k.run_seed}/{own.pid}'.encode()).digest()
                st = (np.random.RandomState(int.from_bytes(h[:4], 'little')).get_state(), _random.Random(h).getstate())
                own.forkserver_state = st
                k.probes['fork_server_started_with_preload'] += 1
            v.np_state, v.py_state = st
            v.extra = {}
            return v
        if self.start_method != 'fork':
            # a spawned interpreter seeds its generators from OS entropy
            import numpy as np
            k = self.k
            self._nspawn += 1
            h = hashlib.sha256(f'spawn/{k.run_seed}/{self._nspawn}'.encode()).digest()
            v.np_state = np.random.RandomState(int.from_bytes(h[:4], 'little')).get_state()
            v.py_state = _random.Random(h).getstate()
            v.extra = {}
        return v

    def _launch_all(self):
        k = self.k
        parent = k.current
        if k.rng_finder is not None:
            # generator objects that exist in module globals at fork time are part of what fork copies
            known = {id(o) for o in k.rng_objects}
            for o in k.rng_finder():
                if id(o) not in known:
                    k.rng_objects.append(o)
        snap = k.snapshot_private(parent)
        t_acc = 0.0
        for i in range(self.W):
            t_acc += k.delay(parent, 'fork')      # the parent forks its workers one after the other
            delay = t_acc
            if self.shares_state:
                w = k.spawn(self._make_worker(i), f't{i}', 'worker', parent.priv, start_delay=delay, image=parent.image)
            else:
                w = k.spawn(self._make_worker(i), f'w{i}', 'worker', self._child_priv(snap), start_delay=delay)
            self._number(w)
            self.workers.append(w)
        k.record('fork', f'{self.W} workers')
        plan = k.cfg.get('kill_plan')
        if plan:
            widx, at = plan
            if widx < len(self.workers):
                self.workers[widx].kill_at_seam = at

    def _number(self, w):
        own = self.owner.image
        own.mp_children += 1
        w.mp_identity = own.mp_identity + (own.mp_children,)
        w.mp_name = ('ForkPoolWorker-' if isinstance(self, SimMPPool) else 'ForkProcess-') + ':'.join(map(str, w.mp_identity))

    def _replace_worker(self, i):
        k = self.k
        cur_p = k.current
        if self.shares_state:
            w = k.spawn(self._make_worker(i), f't{i}r', 'worker', self.owner.priv, start_delay=k.delay(cur_p, 'fork'), image=self.owner.image)
        elif self.start_method == 'fork':
            # multiprocessing.Pool with maxtasksperchild under fork: the replacement is forked from the parent *now*
            w = k.spawn(self._make_worker(i), f'w{i}r', 'worker', self._child_priv(k.snapshot_private(self.owner)),
                        start_delay=k.delay(cur_p, 'fork'))
        else:
            w = k.spawn(self._make_worker(i), f'w{i}r', 'worker', self._child_priv(self.owner.priv.fork()),
                        start_delay=k.delay(cur_p, 'fork'))
        self._number(w)
        self.workers.append(w)
        k.record('respawn', f'worker slot {i}')
        k.probes['worker_respawned'] += 1

    def _make_worker(self, i):
        pool = self

        def worker_main():
            k = pool.k
            p = cur()
            ntasks = 0
            if pool.initializer is not None:
                try:
                    pool.initializer(*pool.initargs)
                except BaseException:  # noqa: BLE001  (CPython: worker exits, pool becomes broken)
                    k.proc_exit(p, 'initializer-failed')
                    pool._worker_died(p)
                    return
            while True:
                k.seam('fetch', '')
                if not pool.queue and not pool.shutdown_flag and not pool.broken:
                    k.block(lambda: bool(pool.queue) or pool.shutdown_flag or pool.broken, what='idle')
                if pool.broken or not pool.queue:
                    break
                t = pool.queue.popleft()
                if not t.future.set_running_or_notify_cancel():
                    continue
                t.worker = p.pid
                p.task = t.idx
                k.record('task', f'task{t.idx}')
                k.note('task_start', task=t.idx, worker=p.pid)
                try:
                    fn, args, kwargs = pickle.loads(t.payload)
                    r = fn(*args, **kwargs)
                    blob = pickle.dumps(r)
                except ProcKilled:
                    raise
                except SimFatal:
                    raise
                except BaseException as e:  # noqa: BLE001  (CPython catches BaseException in the worker)
                    t.outcome = ('raised', type(e).__name__, str(e)[:300])
                    k.note('task_end', task=t.idx, worker=p.pid, ok=False, exc=type(e).__name__, msg=str(e)[:300])
                    k.seam('result', f'task{t.idx} raised {type(e).__name__}')
                    if pool.shares_state:
                        t.future.set_exception(e)
                    else:
                        # the exception travels to the parent as a pickle.  If it cannot be pickled the worker reports that
                        # instead; if the parent cannot UNPICKLE it (e.g. a constructor with required extra arguments) the
                        # parent's result reader fails: CPython declares the pool broken, every pending future gets
                        # BrokenProcessPool and all workers are terminated
                        try:
                            eblob = pickle.dumps(e)
                        except Exception as pe:  # noqa: BLE001
                            t.future.set_exception(pe)
                        else:
                            try:
                                e2 = pickle.loads(eblob)
                            except BaseException as ue:  # noqa: BLE001
                                k.probes['parent_could_not_unpickle_a_result'] += 1
                                k.record('pool-reader-failed', f'{type(ue).__name__} while unpickling {type(e).__name__}')
                                pool._worker_died(p, reader_failed=True)
                                p.term_pending = True
                            else:
                                t.future.set_exception(e2)
                else:
                    t.outcome = ('ok',)
                    k.note('task_end', task=t.idx, worker=p.pid, ok=True)
                    k.seam('result', f'task{t.idx} ok')
                    t.future.set_result(pickle.loads(blob))
                p.task = None
                ntasks += 1
                if pool.max_tasks_per_child is not None and ntasks >= pool.max_tasks_per_child:
                    # the worker retires; CPython starts a replacement as long as the pool is not shut down and idle
                    if (pool.queue or not pool.shutdown_flag) and not pool.broken:
                        pool._replace_worker(i)
                    break
            k.proc_exit(p, 'os._exit')
        return worker_main

    def _worker_died(self, p, reader_failed=False):
        """a worker vanished without going through the normal exit (or the parent's result reader failed): CPython marks the
        pool broken, fails every pending future and terminates the remaining workers."""
        if p not in self.workers or self.broken:
            return
        self.broken = True
        k = self.k
        k.record('pool-broken', f'pid {p.pid}')
        exc = _cf_process.BrokenProcessPool('A process in the process pool was terminated abruptly while the future was running or pending.')
        for t in self.tasks:
            if not _fdone(t.future):
                try:
                    t.future.set_exception(exc)
                except Exception:  # noqa: BLE001
                    pass
                if t.outcome is None:
                    t.outcome = ('broken',)
        self.queue.clear()
        for w in self.workers:
            if w is not p and w.state != 'done':
                w.term_pending = True
                if w.state == 'blocked':
                    w.pred = lambda: True


def _process_chunk(fn, chunk):
    return [fn(*a) for a in chunk]


class SimThreadPool(SimPool):
    """ThreadPoolExecutor: workers share the submitting process's private state (no fork copy) and do not
    lose buffers on exit.  Modelled with the same scheduler."""
    shares_state = True


class SimLock:
    """multiprocessing.Lock / RLock / Semaphore created by a simulated process: acquiring is a scheduling point and blocks in
    simulated time (a real OS semaphore would block the one runnable thread for real)"""

    _registry = {}

    def __init__(self, kernel, value=1, recursive=False):
        self._k = kernel
        self._value = value
        self._recursive = recursive
        self._owner = None
        self._depth = 0
        self._id = len(SimLock._registry) + 1
        SimLock._registry[self._id] = self

    def __reduce__(self):
        return (_simlock_by_id, (self._id,))       # crosses the (simulated) process boundary by identity, like the real thing

    def acquire(self, block=True, timeout=None):
        p = cur()
        if p is None:
            raise HarnessError('SimLock used outside the simulation')
        k = self._k
        if self._recursive and self._owner is p.image and self._depth > 0:
            self._depth += 1
            return True
        k.seam('lock-acquire', f'lock{self._id}')
        if self._value <= 0:
            if not block:
                return False
            ok = k.block(lambda: self._value > 0, timeout=timeout, what=f'lock{self._id}')
            if not ok:
                return False
        self._value -= 1
        self._owner = p.image
        self._depth = 1
        k.probes['sim_lock_acquired'] += 1
        return True

    def release(self):
        p = cur()
        if self._recursive and self._depth > 1:
            self._depth -= 1
            return
        if p is not None and not p.dead:
            self._k.seam('lock-release', f'lock{self._id}')
        self._value += 1
        self._owner = None
        self._depth = 0

    def locked(self):
        return self._value <= 0

    def __enter__(self):
        self.acquire()
        return self

    def __exit__(self, *a):
        self.release()
        return False


def _simlock_by_id(i):
    return SimLock._registry[i]


class _AsyncResult:
    """multiprocessing.pool.AsyncResult / MapResult over SimFutures"""

    def __init__(self, futs, single, callback=None, error_callback=None, chunked=False):
        self._futs, self._single, self._cb, self._ecb, self._chunked = futs, single, callback, error_callback, chunked
        self._fired = False

    def ready(self):
        return all(_fdone(f) for f in self._futs)

    def wait(self, timeout=None):
        p = cur()
        if p is not None and not self.ready():
            p.kernel.block(self.ready, timeout=timeout, what='async-result')

    def successful(self):
        if not self.ready():
            raise ValueError('not ready')
        return all(f.exception(0) is None for f in self._futs)

    def get(self, timeout=None):
        self.wait(timeout)
        if not self.ready():
            import multiprocessing
            raise multiprocessing.TimeoutError()
        try:
            vals = [f.result(0) for f in self._futs]
        except BaseException as e:  # noqa: BLE001
            if self._ecb and not self._fired:
                self._fired = True
                self._ecb(e)
            raise
        if self._chunked:
            vals = [x for c in vals for x in c]
        r = vals[0] if self._single else vals
        if self._cb and not self._fired:
            self._fired = True
            self._cb(r)
        return r


class SimMPPool(SimPool):
    """multiprocessing.Pool on Linux/fork: workers are forked when the pool is created; leaving the `with` block
    terminates them (pending work is lost) unless close()+join() were called"""

    def __init__(self, processes=None, initializer=None, initargs=(), maxtasksperchild=None, context=None):
        SimPool.__init__(self, processes, None, initializer, initargs or ())
        self.max_tasks_per_child = maxtasksperchild
        self.closed = False
        self._launch_all()

    def _chunks(self, func, iterable, chunksize, star=False):
        items = list(iterable)
        if chunksize is None:
            chunksize, extra = divmod(len(items), self.W * 4)
            if extra:
                chunksize += 1
        chunksize = max(1, chunksize)
        fn = _star_chunk if star else _map_chunk
        return [self.submit(fn, func, items[i:i + chunksize]) for i in range(0, len(items), chunksize)]

    def submit(self, fn, /, *args, **kwargs):
        if self.closed:
            raise ValueError('Pool not running')
        return SimPool.submit(self, fn, *args, **kwargs)

    def apply_async(self, func, args=(), kwds=None, callback=None, error_callback=None):
        return _AsyncResult([self.submit(func, *args, **(kwds or {}))], True, callback, error_callback)

    def apply(self, func, args=(), kwds=None):
        return self.apply_async(func, args, kwds).get()

    def map_async(self, func, iterable, chunksize=None, callback=None, error_callback=None):
        return _AsyncResult(self._chunks(func, iterable, chunksize), False, callback, error_callback, chunked=True)

    def map(self, func, iterable, chunksize=None):
        return self.map_async(func, iterable, chunksize).get()

    def starmap_async(self, func, iterable, chunksize=None, callback=None, error_callback=None):
        return _AsyncResult(self._chunks(func, iterable, chunksize, star=True), False, callback, error_callback, chunked=True)

    def starmap(self, func, iterable, chunksize=None):
        return self.starmap_async(func, iterable, chunksize).get()

    def imap(self, func, iterable, chunksize=1):
        futs = self._chunks(func, iterable, chunksize)

        def gen():
            for f in futs:
                yield from f.result()
        return gen()

    def imap_unordered(self, func, iterable, chunksize=1):
        futs = self._chunks(func, iterable, chunksize)

        def gen():
            for f in _sim_as_completed(futs):
                yield from f.result()
        return gen()

    def close(self):
        self.closed = True
        self.shutdown_flag = True
        if cur() is not None:
            self.k.seam('pool-close', '')

    def join(self):
        if not self.closed and not self.broken:
            raise ValueError('Pool is still running')
        if cur() is not None and self.workers:
            self.k.block(self._joined, what='pool-join')

    def terminate(self):
        k = self.k
        self.closed = True
        self.shutdown_flag = True
        k.seam('pool-terminate', '')
        lost = [t.idx for t in self.tasks if not _fdone(t.future)]
        if lost:
            k.note('pool_terminated_with_pending_work', tasks=lost)
            k.probes['pool_terminated_with_pending_work'] += 1
        self.queue.clear()
        for w in self.workers:
            if w.state != 'done':
                w.term_pending = True
                if w.state == 'blocked':
                    w.pred = lambda: True
        k.block(self._joined, what='pool-join')

    def __exit__(self, *a):
        self.terminate()
        return False


def _map_chunk(func, chunk):
    return [func(x) for x in chunk]


def _star_chunk(func, chunk):
    return [func(*x) for x in chunk]


def _sim_as_completed(fs, timeout=None):
    p = cur()
    if p is None:
        yield from _real['cf.as_completed'](fs, timeout)
        return
    k = p.kernel
    pending = list(dict.fromkeys(fs))
    end = None if timeout is None else k.now + timeout
    while pending:
        done = [f for f in pending if _fdone(f)]
        if not done:
            k.block(lambda: any(_fdone(f) for f in pending), timeout=None if end is None else max(0.0, end - k.now),
                    what='as_completed')
            done = [f for f in pending if _fdone(f)]
            if not done:
                raise _cf.TimeoutError(f'{len(pending)} (of {len(fs)}) futures unfinished')
        for f in done:
            pending.remove(f)
            yield f


def _sim_wait(fs, timeout=None, return_when=_cf.ALL_COMPLETED):
    p = cur()
    if p is None:
        return _real['cf.wait'](fs, timeout, return_when)
    k = p.kernel
    fs = set(fs)

    def ok():
        d = [f for f in fs if _fdone(f)]
        if return_when == _cf.FIRST_COMPLETED:
            return bool(d)
        if return_when == _cf.FIRST_EXCEPTION:
            return len(d) == len(fs) or any((not _cf.Future.cancelled(f)) and _cf.Future.exception(f, 0) is not None for f in d)
        return len(d) == len(fs)
    k.block(ok, timeout=timeout, what='wait')
    d = {f for f in fs if _fdone(f)}
    return _cf_base.DoneAndNotDoneFutures(d, fs - d)


# --------------------------------------------------------------------------------------
# object addresses.  id(obj) is a memory address, and CPython hands the address of a dead object to the next object of the same
# size: whether two objects that never coexist "have the same id" is decided by the allocator, not by the program.  Code of the
# repository that calls id() gets a simulated address instead: an object keeps its address while it lives, and whether a new
# object re-uses the address of a dead one is a choice of the seeded scheduler (so that such a run replays exactly).  The
# pinned tree never calls id(); the seam is dormant until a change introduces such a call.
# --------------------------------------------------------------------------------------
_real_id = id


def _sim_id(obj):
    p = cur()
    rid = _real_id(obj)
    if p is None:
        return rid
    k = p.kernel
    st = k.idstate
    ent = st['table'].get(rid)
    if ent is not None and ent[0]() is obj:
        return ent[1]
    try:
        def _dead(wr_, rid=rid, st=st):
            e = st['table'].get(rid)
            if e is not None and e[0] is wr_:
                del st['table'][rid]
                st['free'].append(e[1])
        wr = weakref.ref(obj, _dead)
    except TypeError:
        return rid          # (not weakly referenceable: numbers, strings, tuples - their identity is not an allocation of the program)
    if st['free'] and k.cs.choose(2, 'addr') == 1:
        addr = st['free'].pop()
        k.probes['address_of_a_dead_object_reused'] += 1
    else:
        addr = st['next']
        st['next'] += 64
    st['table'][rid] = (wr, addr)
    k.probes['object_addresses_handed_out'] += 1
    return addr


def install_id_seam(packages):
    """binds the name `id` in the globals of every imported module of the given packages to the simulated address function"""
    n = 0
    for name, mod in list(sys.modules.items()):
        if mod is not None and name.split('.')[0] in packages and 'id' not in getattr(mod, '__dict__', {'id': 1}):
            mod.__dict__['id'] = _sim_id
            n += 1
    return n


def _sim_cpu_count():
    p = cur()
    if p is None:
        return _real['os.cpu_count']()
    return p.kernel.cfg.get('cpu_count', 4)


# --------------------------------------------------------------------------------------
# shims
# --------------------------------------------------------------------------------------
def _incidental(path):
    """file accesses the interpreter makes on its own behalf (source lines for tracebacks and warnings, byte code):
    never part of the system under test, and dependent on cache state the simulation does not control"""
    try:
        s = os.fspath(path)
    except TypeError:
        return False
    if isinstance(s, bytes):
        s = s.decode('utf-8', 'replace')
    return s.endswith(('.py', '.pyc', '.pyi', '.so', '.pth')) or '/__pycache__/' in s


def _wrap_fs(name, kind, path_args=1):
    real = _real[name]

    def shim(*a, **kw):
        p = cur()
        if p is not None and not p.atomic and not (a and _incidental(a[0])):
            k = p.kernel
            try:
                detail = ' '.join(k.norm_path(x) for x in a[:path_args])
            except TypeError:
                detail = '?'
            k.seam(kind, detail)
            if kind == 'copyfile' and k.cfg.get('capture_copies'):
                # what a process copies (e.g. the case report an iteration obtained from its client) is observable output
                try:
                    if os.path.getsize(a[0]) < (1 << 20):
                        with _real['open'](a[0], 'rb') as f:
                            k.note('copyfile', src=k.norm_path(a[0]), dst=k.norm_path(a[1]), data=f.read(), task=p.task)
                except (OSError, TypeError):
                    pass
        return real(*a, **kw)
    shim.__name__ = real.__name__
    shim.__wrapped__ = real
    return shim


def _wrap_stat(name, kind):
    """stat family: a seam (when kind is given), and the time stamps of the result come from the simulated clock"""
    real = _real[name]

    def shim(*a, **kw):
        p = cur()
        if p is None or not a:
            return real(*a, **kw)
        inc = not isinstance(a[0], int) and _incidental(a[0])
        k = p.kernel
        if kind and not p.atomic and not inc:
            try:
                detail = k.norm_path(a[0])
            except TypeError:
                detail = '?'
            k.seam(kind, detail)
        st = real(*a, **kw)
        if inc:
            return st
        try:
            return k.sim_stat(st, a[0])
        except Exception:  # noqa: BLE001
            return st
    shim.__name__ = real.__name__
    shim.__wrapped__ = real
    return shim


def _pool_factory(simcls, realcls):
    class Dispatch(realcls):
        def __new__(cls, *a, **kw):
            if cur() is not None:
                return simcls(*a, **kw)
            return super().__new__(cls)
    Dispatch.__name__ = realcls.__name__
    Dispatch.__qualname__ = realcls.__qualname__
    return Dispatch


def install():
    """install the dispatching shims; must run before any repository module is imported"""
    global _installed
    if _installed:
        return
    _installed = True
    _real.update({
        'open': builtins.open, 'os.open': os.open, 'os.write': os.write, 'os.close': os.close,
        'os.rename': os.rename, 'os.replace': os.replace, 'os.unlink': os.unlink, 'os.remove': os.remove,
        'os.stat': os.stat, 'os.lstat': os.lstat, 'os.fstat': os.fstat, 'os.utime': os.utime,
        'os.listdir': os.listdir, 'os.scandir': os.scandir, 'os.fsync': os.fsync, 'os.chdir': os.chdir, 'os.getcwd': os.getcwd,
        'os.getpid': os.getpid, 'os.urandom': os.urandom, 'os.cpu_count': os.cpu_count,
        'os.fork': os.fork, 'os.kill': os.kill, 'os._exit': os._exit,
        'time.time': _time.time, 'time.sleep': _time.sleep, 'time.monotonic': _time.monotonic,
        'time.perf_counter': _time.perf_counter, 'time.time_ns': _time.time_ns,
        'uuid.uuid1': _uuid.uuid1, 'uuid.uuid4': _uuid.uuid4,
        'shutil.copyfile': shutil.copyfile, 'shutil.copy': shutil.copy, 'shutil.move': shutil.move,
        'atexit.register': _atexit.register,
        'cf.as_completed': _cf.as_completed, 'cf.wait': _cf.wait,
        'random._urandom': _random._urandom,
        'Thread.start': threading.Thread.start,
    })
    builtins.open = _sim_open
    io.open = _sim_open
    os.rename = _wrap_fs('os.rename', 'rename', 2)
    os.replace = _wrap_fs('os.replace', 'rename', 2)
    os.unlink = _wrap_fs('os.unlink', 'unlink')
    os.remove = _wrap_fs('os.remove', 'unlink')
    os.stat = _wrap_stat('os.stat', 'stat')
    os.lstat = _wrap_stat('os.lstat', 'stat')
    os.fstat = _wrap_stat('os.fstat', None)
    os.listdir = _wrap_fs('os.listdir', 'listdir')
    os.scandir = _wrap_fs('os.scandir', 'listdir')

    def utime(path, times=None, *, ns=None, **kw):
        p = cur()
        if p is None:
            return _real['os.utime'](path, times, **kw) if ns is None else _real['os.utime'](path, ns=ns, **kw)
        k = p.kernel
        if not p.atomic:
            k.seam('utime', k.norm_path(path) if not isinstance(path, int) else '')
        r = _real['os.utime'](path, times, **kw) if ns is None else _real['os.utime'](path, ns=ns, **kw)
        # (the times a process passes are in the domain it reads with stat: the simulated one)
        t = times[1] if times is not None else (ns[1] / 1e9 if ns is not None else None)
        if isinstance(path, int):
            k.touch_fd(path, t)
        else:
            k.touch_path(path, t)
        return r
    os.utime = utime
    shutil.copyfile = _wrap_fs('shutil.copyfile', 'copyfile', 2)
    shutil.copy = _wrap_fs('shutil.copy', 'copyfile', 2)
    shutil.move = _wrap_fs('shutil.move', 'rename', 2)

    def fsync(fd):
        p = cur()
        if p is not None and not p.atomic:
            p.kernel.seam('fsync', '')
            return None
        return _real['os.fsync'](fd)
    os.fsync = fsync

    def chdir(path):
        p = cur()
        return _real['os.chdir'](path)
    os.chdir = chdir

    def getpid():
        p = cur()
        return p.pid if p is not None else _real['os.getpid']()
    os.getpid = getpid

    def urandom(n):
        p = cur()
        if p is not None:
            return p.kernel.entropy(p, n)
        return _real['os.urandom'](n)
    os.urandom = urandom
    _random._urandom = urandom

    os.cpu_count = _sim_cpu_count
    if hasattr(os, 'process_cpu_count'):
        os.process_cpu_count = _sim_cpu_count

    def fork():
        if cur() is not None:
            raise SimFatal('unmodelled_concurrency', 'os.fork')
        return _real['os.fork']()
    os.fork = fork

    def t_time():
        p = cur()
        return p.kernel.wall() if p is not None else _real['time.time']()

    def t_time_ns():
        p = cur()
        return int(p.kernel.wall() * 1e9) if p is not None else _real['time.time_ns']()

    def t_mono():
        p = cur()
        return p.kernel.now if p is not None else _real['time.monotonic']()

    def t_perf():
        p = cur()
        return p.kernel.now if p is not None else _real['time.perf_counter']()

    def t_sleep(s):
        p = cur()
        if p is None:
            return _real['time.sleep'](s)
        if p.atomic:
            return None
        p.kernel.seam('sleep', f'{float(s):g}', extra=max(0.0, float(s)))
        return None
    _time.time, _time.time_ns, _time.monotonic, _time.perf_counter, _time.sleep = t_time, t_time_ns, t_mono, t_perf, t_sleep

    def uuid1(node=None, clock_seq=None):
        p = cur()
        if p is None:
            return _real['uuid.uuid1'](node, clock_seq)
        p.uuid_ctr += 1
        h = hashlib.sha256(f'u1/{p.kernel.run_seed}/{p.pid}/{p.uuid_ctr}'.encode()).digest()
        return _uuid.UUID(bytes=h[:16], version=1)
    _uuid.uuid1 = uuid1

    def at_register(func, *a, **kw):
        p = cur()
        if p is not None:
            p.atexit.append((func, a, kw))
            return func
        return _real['atexit.register'](func, *a, **kw)
    _atexit.register = at_register

    # process pools
    _cf.ProcessPoolExecutor = _pool_factory(SimPool, _cf_process.ProcessPoolExecutor)
    _cf_process.ProcessPoolExecutor = _cf.ProcessPoolExecutor
    _cf.ThreadPoolExecutor = _pool_factory(SimThreadPool, _cf_thread.ThreadPoolExecutor)
    _cf_thread.ThreadPoolExecutor = _cf.ThreadPoolExecutor
    _cf.as_completed = _sim_as_completed
    _cf_base.as_completed = _sim_as_completed
    _cf.wait = _sim_wait
    _cf_base.wait = _sim_wait

    # how many threads the calling process has is part of its environment (a service with a heartbeat thread, a notebook
    # kernel, a debugger): a simulated process sees its own main thread plus `host_threads - 1` others, never the simulator's
    _real['threading.active_count'] = threading.active_count
    _real['threading.enumerate'] = threading.enumerate

    def _host_threads(p):
        n = p.kernel.cfg.get('host_threads', 1) if p.role == 'parent' and p.image is p else 1
        return max(1, int(n))

    def active_count():
        p = cur()
        if p is None:
            return _real['threading.active_count']()
        return _host_threads(p)

    def enumerate_():
        p = cur()
        if p is None:
            return _real['threading.enumerate']()
        others = [threading.Thread(name=f'host-thread-{i}', daemon=True) for i in range(_host_threads(p) - 1)]
        return [threading.current_thread()] + others
    threading.active_count = active_count
    threading.enumerate = enumerate_

    def thread_start(self):
        if cur() is not None:
            raise SimFatal('unmodelled_concurrency', 'threading.Thread started by a simulated process')
        return _real['Thread.start'](self)
    threading.Thread.start = thread_start

    import subprocess
    _real['Popen.__init__'] = subprocess.Popen.__init__

    def popen_init(self, *a, **kw):
        p = cur()
        if p is not None:
            argv = a[0] if a else kw.get('args')
            for h in POPEN_HANDLERS:
                rc = h(p, argv, kw)
                if rc is not None:
                    # a child program the simulation has a model for: it ran to completion as one step of the calling process
                    # (spawn + wait; it touches only the files named on its command line)
                    self.args = argv
                    self.returncode = rc
                    self.pid = p.kernel.alloc_foreign_pid() if hasattr(p.kernel, 'alloc_foreign_pid') else 0
                    self.stdin = self.stdout = self.stderr = None
                    self._child_created = False
                    self._closed_child_pipe_fds = True
                    self._waitpid_lock = threading.Lock()
                    self._sigint_wait_secs = 0.25
                    self._communication_started = False
                    self._input = None
                    self.text_mode = self.encoding = self.errors = None
                    self.pipesize = -1
                    self.process_group = None
                    return None
            raise SimFatal('unmodelled_concurrency', 'subprocess.Popen by a simulated process')
        return _real['Popen.__init__'](self, *a, **kw)
    subprocess.Popen.__init__ = popen_init

    import multiprocessing
    import multiprocessing.pool as _mpp
    _real['mp.pool.Pool'] = _mpp.Pool
    _mpp.Pool = _pool_factory(SimMPPool, _mpp.Pool)
    _real['mp.Pool'] = multiprocessing.Pool

    def mp_pool(*a, **kw):
        if cur() is not None:
            return SimMPPool(*a, **kw)
        return _real['mp.Pool'](*a, **kw)
    multiprocessing.Pool = mp_pool
    import multiprocessing.context as _mpc
    for nm, kw in (('Lock', {}), ('RLock', {'recursive': True})):
        _real['mp.ctx.' + nm] = getattr(_mpc.BaseContext, nm)

        def mk(nm=nm, kw=kw):
            def f(self):
                p = cur()
                if p is not None:
                    return SimLock(p.kernel, 1, **kw)
                return _real['mp.ctx.' + nm](self)
            return f
        setattr(_mpc.BaseContext, nm, mk())
    for nm in ('Semaphore', 'BoundedSemaphore'):
        _real['mp.ctx.' + nm] = getattr(_mpc.BaseContext, nm)

        def mks(nm=nm):
            def f(self, value=1):
                p = cur()
                if p is not None:
                    return SimLock(p.kernel, value)
                return _real['mp.ctx.' + nm](self, value)
            return f
        setattr(_mpc.BaseContext, nm, mks())
    import multiprocessing.process as _mpproc
    _real['mp.current_process'] = _mpproc.current_process

    class _SimProcInfo:
        def __init__(self, p):
            self._identity = tuple(p.mp_identity)
            self.name = getattr(p, 'mp_name', 'MainProcess')
            self.pid = self.ident = p.pid
            self.daemon = p.role == 'worker'
            self.exitcode = None
            self.authkey = b''

        def is_alive(self):
            return True

    def current_process():
        p = cur()
        if p is None:
            return _real['mp.current_process']()
        return _SimProcInfo(p.image if p.image is not p else p)
    _mpproc.current_process = current_process
    multiprocessing.current_process = current_process
    # the names in the multiprocessing namespace are methods bound at import time to the default context
    for nm in ('Lock', 'RLock', 'Semaphore', 'BoundedSemaphore'):
        setattr(multiprocessing, nm, getattr(_mpc._default_context, nm))
    _real['mp.Process.start'] = multiprocessing.Process.start

    def mp_process_start(self):
        if cur() is not None:
            raise SimFatal('unmodelled_concurrency', 'multiprocessing.Process started by a simulated process')
        return _real['mp.Process.start'](self)
    multiprocessing.Process.start = mp_process_start

    # logging handler locks would be held across seam yields; one simulated process runs at a time
    import logging

    def no_lock(self):
        self.lock = None
    logging.Handler.createLock = no_lock

    # pid liveness for the lock protocol
    try:
        import psutil
        _real['psutil.pid_exists'] = psutil.pid_exists

        def pid_exists(pid):
            p = cur()
            if p is None:
                return _real['psutil.pid_exists'](pid)
            k = p.kernel
            for q in k.procs:
                if q.pid == pid:
                    return q.state != 'done'
            return pid in k.foreign_live_pids
        psutil.pid_exists = pid_exists
    except ImportError:
        pass


def post_import_patch():
    """after third-party modules are imported: names bound at import time, lock instrumentation"""
    try:
        import psutil
        import pylocker  # noqa: F401
        L = sys.modules['pylocker.Locker']
        if hasattr(L, 'pid_exists'):
            L.pid_exists = psutil.pid_exists
        cls = L.Locker
        if not getattr(cls, '_dsim_wrapped', False):
            ra, rr = cls.acquire_lock, cls.release_lock

            def acquire_lock(self, *a, **kw):
                r = ra(self, *a, **kw)
                p = cur()
                if p is not None:
                    code = r[1] if isinstance(r[1], int) else 'exc'
                    p.kernel.note('lock_acquire', ok=bool(r[0]), code=code, task=p.task)
                    p.kernel.probes[f'acquire_code_{code}'] += 1
                return r

            def release_lock(self, *a, **kw):
                r = rr(self, *a, **kw)
                p = cur()
                if p is not None:
                    code = r[1] if isinstance(r[1], int) else 'exc'
                    p.kernel.note('lock_release', ok=bool(r[0]), code=code, task=p.task)
                    p.kernel.probes[f'release_code_{code}'] += 1
                return r
            cls.acquire_lock, cls.release_lock = acquire_lock, release_lock
            cls.acquire, cls.release = acquire_lock, release_lock
            cls._dsim_wrapped = True
    except ImportError:
        pass


# callables (proc, argv, popen kwargs) -> exit status, or None when the command line is not theirs
POPEN_HANDLERS = []


class atomic_section:
    """while active the current simulated process performs real I/O without yielding: one simulator run
    touches only files private to its iteration, so it commutes with every other process's steps"""

    def __init__(self, kind, detail=''):
        self.kind, self.detail = kind, detail

    def __enter__(self):
        p = cur()
        self.p = p
        if p is not None and not p.atomic:
            p.kernel.seam('compute', self.detail)
        if p is not None:
            p.atomic += 1
        return self

    def __exit__(self, *a):
        if self.p is not None:
            self.p.atomic -= 1
        return False
