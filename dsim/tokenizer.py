"""Independent tokenisation of a GEOPHIRES case report, used as the per-report invariant of C10:
every non-None field the client exposes equals the number and unit token on a line that carries exactly that label;
every profile table has one row per data line with cells equal to the whitespace tokens; as_csv() carries the same
values.  Deliberately written without looking at how the client finds its lines (no substring search, no set)."""
import csv
import io
import re

PROFILE_KEYS = ('POWER GENERATION PROFILE', 'HEAT AND/OR ELECTRICITY EXTRACTION AND GENERATION PROFILE',
                'EXTENDED ECONOMIC PROFILE', 'REVENUE & CASHFLOW PROFILE', 'CARBON REVENUE PROFILE', 'CCUS PROFILE',
                'S-DAC-GT PROFILE')

REPORT_TABLE_TITLES = {
    'POWER GENERATION PROFILE': ('HEATING, COOLING AND/OR ELECTRICITY PRODUCTION PROFILE', 'POWER GENERATION PROFILE'),
    'HEAT AND/OR ELECTRICITY EXTRACTION AND GENERATION PROFILE': (
        'ANNUAL HEATING, COOLING AND/OR ELECTRICITY PRODUCTION PROFILE', 'HEAT AND/OR ELECTRICITY EXTRACTION AND GENERATION PROFILE'),
    'EXTENDED ECONOMIC PROFILE': ('EXTENDED ECONOMIC PROFILE',),
    'REVENUE & CASHFLOW PROFILE': ('REVENUE & CASHFLOW PROFILE',),
    'CCUS PROFILE': ('CCUS PROFILE',),
    'S-DAC-GT PROFILE': ('S-DAC-GT PROFILE',),
}


def num(tok):
    """number as printed: thousands separators allowed; N/A -> None; returns (ok, value)"""
    if tok == 'N/A':
        return True, None
    t = tok.replace(',', '')
    try:
        if re.fullmatch(r'[+-]?\d+', t):
            return True, int(t)
        return True, float(t)
    except ValueError:
        return False, None


def same_number(a, b):
    if a is None or b is None:
        return a is None and b is None
    if isinstance(a, str) or isinstance(b, str):
        return str(a) == str(b)
    if a != a and b != b:
        return True
    return float(a) == float(b)


def tails_for(stripped, field):
    """texts following the label on every line that starts (after indentation) with exactly `field` followed by ':' or ' = '"""
    out = []
    n = len(field)
    for s in stripped:
        if not s.startswith(field):
            continue
        rest = s[n:]
        if rest.startswith(':'):
            out.append(rest[1:])
        elif rest.startswith(' = ') or rest.startswith('  = '):
            out.append(rest.split('= ', 1)[1])
    return out


def table_rows(lines, titles):
    """data rows (lists of tokens) of the table announced by a banner line '*  TITLE  *'"""
    start = None
    for t in titles:
        banner = f'*  {t}  *'
        for i, ln in enumerate(lines):
            if ln.strip() == banner:
                start = i
                break
        if start is not None:
            break
    if start is None:
        return None
    rows = []
    seen_data = False
    for ln in lines[start + 1:]:
        toks = ln.replace('|', ' ').split()
        if toks and re.fullmatch(r'\d+', toks[0]) and len(toks) > 1:
            rows.append(toks)
            seen_data = True
        elif seen_data and not ln.strip():
            break
        elif seen_data and toks and not re.fullmatch(r'[-_=*]+', ''.join(toks)):
            break
    return rows


def check(report, res):
    """-> (problems [(cls, cause, detail)], stats)"""
    problems = []
    st = {'fields': 0, 'multi_match_fields': 0, 'table_rows': 0, 'csv_rows': 0}
    lines = report.split('\n')
    stripped = [ln.strip() for ln in lines]
    result = res.result
    scalars = {}
    for cat, fields in result.items():
        if cat == 'metadata' or not isinstance(fields, dict):
            continue
        for field, vu in fields.items():
            if vu is None:
                continue
            st['fields'] += 1
            tails = tails_for(stripped, field)
            if not tails:
                problems.append(('parse_mismatch', 'no_line_with_label',
                                 f'{cat}/{field} = {vu!r} but no report line carries exactly this label'))
                continue
            if len(tails) > 1:
                st['multi_match_fields'] += 1
            if isinstance(vu, dict):
                v, u = vu.get('value'), vu.get('unit')
            else:
                v, u = vu, None
            ok_any = False
            for tail in tails:
                toks = tail.split()
                if isinstance(v, str):
                    if ' '.join(toks) == ' '.join(v.split()):
                        ok_any = True
                        break
                    continue
                if not toks:
                    continue
                okn, n = num(toks[0])
                if not okn or not same_number(n, v):
                    continue
                unit_tok = toks[1] if len(toks) == 2 else None
                if u == unit_tok or (u == 'count' and unit_tok is None and field.startswith('Number')) or (u is None and len(toks) != 2):
                    ok_any = True
                    break
            if not ok_any:
                problems.append(('parse_mismatch', 'value_or_unit',
                                 f'{cat}/{field}: client says {vu!r}, report line(s) say {[t.strip() for t in tails][:3]!r}'))
            scalars[(cat, field)] = (v, u)
    # ---- profile tables ----------------------------------------------------------------
    tables = {}
    # every table the result exposes, whatever it is called (not only the ones known when this was written): a category whose
    # value is a list of rows
    keys = list(PROFILE_KEYS) + sorted(k_ for k_, v_ in result.items()
                                       if k_ not in PROFILE_KEYS and isinstance(v_, list) and v_ and isinstance(v_[0], (list, tuple)))
    for key in keys:
        tab = result.get(key)
        if not isinstance(tab, list) or len(tab) < 1:
            continue
        tables[key] = tab
        titles = REPORT_TABLE_TITLES.get(key, (key,) if key not in PROFILE_KEYS else None)
        if titles is None:
            continue   # CARBON REVENUE PROFILE is derived from the revenue & cashflow table, not printed as such
        rows = table_rows(lines, titles)
        if rows is None:
            problems.append(('parse_mismatch', 'table_absent', f'{key}: client exposes a table the report does not contain'))
            continue
        data = tab[1:]
        if len(data) != len(rows):
            problems.append(('parse_mismatch', 'table_row_count', f'{key}: client has {len(data)} rows, report has {len(rows)} data lines'))
            continue
        ncol = len(tab[0])
        for r_client, r_rep in zip(data, rows):
            st['table_rows'] += 1
            cells = [c for c in r_client if c != '']
            if len(cells) != len(r_rep):
                problems.append(('parse_mismatch', 'table_cell_count', f'{key}: row {r_rep[0]}: client {len(cells)} cells, report {len(r_rep)} tokens'))
                break
            bad = False
            for c, t in zip(cells, r_rep):
                okn, n = num(t)
                if not okn or not same_number(n, c):
                    problems.append(('parse_mismatch', 'table_cell', f'{key}: row {r_rep[0]}: client cell {c!r} vs report token {t!r}'))
                    bad = True
                    break
            if bad:
                break
            if len(r_client) != ncol:
                problems.append(('parse_mismatch', 'table_header_width', f'{key}: header has {ncol} columns, row has {len(r_client)}'))
                break
    # ---- csv ------------------------------------------------------------------------------
    try:
        rows = list(csv.reader(io.StringIO(res.as_csv())))
    except Exception as e:  # noqa: BLE001
        problems.append(('csv_mismatch', 'csv_error', f'as_csv raised {type(e).__name__}: {e}'))
        return problems, st
    if not rows or rows[0] != ['Category', 'Field', 'Year', 'Value', 'Units']:
        problems.append(('csv_mismatch', 'csv_header', f'{rows[:1]!r}'))
        return problems, st
    sc = {}
    prof = {}
    for r in rows[1:]:
        st['csv_rows'] += 1
        if len(r) != 5:
            problems.append(('csv_mismatch', 'csv_row_width', repr(r)))
            break
        if r[2] == '':
            sc[(r[0], r[1].replace('\\,', ','))] = (r[3], r[4])
        else:
            prof[(r[0], r[1], r[4], r[2])] = r[3]
    for (cat, field), (v, u) in scalars.items():
        got = sc.get((cat, field))
        if got is None:
            problems.append(('csv_mismatch', 'csv_field_missing', f'{cat}/{field} not in as_csv()'))
            break
        if got[0] != ('' if v is None else str(v)) or got[1] != ('' if u is None else str(u)):
            problems.append(('csv_mismatch', 'csv_value', f'{cat}/{field}: csv {got!r} vs result {(v, u)!r}'))
            break
    for key, tab in tables.items():
        hdr = tab[0]
        bad = False
        for row in tab[1:]:
            year = row[0]
            for j in range(1, len(hdr)):
                name, _, unit = hdr[j].partition(' (')
                unit = unit.replace(')', '')
                got = prof.get((key, name, unit, str(year)))
                if got is None or got != ('' if row[j] is None else str(row[j])):
                    problems.append(('csv_mismatch', 'csv_profile_cell', f'{key}/{hdr[j]}/year {year}: csv {got!r} vs result {row[j]!r}'))
                    bad = True
                    break
            if bad:
                break
        if bad:
            break
    return problems, st


# --------------------------------------------------------------------------------------
# the JSON written next to the report (C10, last clause)
# --------------------------------------------------------------------------------------
# quantities the report prints with the opposite sign as a display convention (a credit shown as a deduction in the list of
# capital costs: Outputs.py writes -1 * RITCValue)
DISPLAYED_NEGATED = {'Investment Tax Credit'}


def unit_spellings():
    """enum member name (how the JSON spells a unit) -> the texts the report may print for it"""
    import enum

    import geophires_x.Units as U
    m = {}
    for obj in vars(U).values():
        if isinstance(obj, type) and issubclass(obj, enum.Enum) and obj is not enum.Enum:
            for mem in obj:
                m.setdefault(mem.name, set()).add(str(mem.value).strip())
    return m


def _printed_matches(x, tok):
    """is `tok` (a number as printed) what rounding x to the printed precision gives?  -> True / False / None (not a number)"""
    from decimal import Decimal, InvalidOperation
    s = tok.replace(',', '')
    try:
        d = Decimal(s)
        xf = float(x)
    except (InvalidOperation, ValueError, TypeError):
        return None
    if not d.is_finite() or xf != xf or xf in (float('inf'), float('-inf')):
        return (str(float(d)) == str(xf)) if not d.is_nan() else (xf != xf)
    q = Decimal(1).scaleb(d.as_tuple().exponent)          # one unit in the last printed place
    return abs(Decimal(xf) - d) <= q / 2 * (1 + Decimal('1e-6')) + abs(Decimal(xf)) * Decimal('1e-12')


def unit_registry():
    from geophires_x.Units import get_unit_registry
    return get_unit_registry()


def check_json(report, j, spell, ureg=None):
    """-> (problems, stats).  For every scalar numeric entry of the JSON whose display name (or name) is the label of exactly
    one 'label: number [unit]' line of the report, printed in the unit the JSON states, the printed number must be the JSON
    value rounded to the printed precision.  Anything that cannot be matched unambiguously is counted, not judged."""
    problems = []
    st = {'json_entries': 0, 'json_compared': 0, 'json_label_absent': 0, 'json_label_ambiguous': 0, 'json_unit_differs': 0}
    if not isinstance(j, dict):
        return [('json_mismatch', 'not_an_object', f'the JSON is a {type(j).__name__}')], st
    stripped = [ln.strip() for ln in report.split('\n')]
    for key in sorted(j):
        e = j[key]
        if not isinstance(e, dict) or 'value' not in e:
            continue
        v = e['value']
        if isinstance(v, bool) or not isinstance(v, (int, float)):
            continue
        st['json_entries'] += 1
        labels = [x for x in dict.fromkeys([e.get('display_name'), e.get('Name'), key]) if isinstance(x, str) and x]
        tails = None
        for lab in labels:
            t = tails_for(stripped, lab)
            if t:
                tails = (lab, t)
                break
        if tails is None:
            st['json_label_absent'] += 1
            continue
        lab, t = tails
        if len(t) != 1:
            st['json_label_ambiguous'] += 1
            continue
        toks = t[0].split()
        if not toks:
            continue
        unit_txt = ' '.join(toks[1:])
        cu = e.get('CurrentUnits')
        allowed = spell.get(cu, set()) if isinstance(cu, str) else set()
        if not (unit_txt in allowed or (unit_txt == '' and (not allowed or allowed <= {'', 'None', 'none', '1'}))):
            # the report prints the line in another unit than the JSON states: the same quantity all the same, if the JSON
            # value converted to the printed unit is the printed number
            st['json_unit_differs'] += 1
            if ureg is None or len(allowed) != 1 or _printed_matches(0.0, toks[0]) is None:
                continue
            try:
                conv = ureg.Quantity(float(v), next(iter(allowed))).to(unit_txt or 'dimensionless').magnitude
            except Exception as ex:  # noqa: BLE001
                if type(ex).__name__ == 'DimensionalityError':
                    st['json_compared'] += 1
                    problems.append(('json_mismatch', 'unit', f'{key!r}: the JSON says {v!r} {cu} ({next(iter(allowed))}), the report line {lab!r} '
                                                             f'prints {t[0].strip()!r}: not the same kind of quantity'))
                else:
                    st['json_unit_unknown'] = st.get('json_unit_unknown', 0) + 1
                continue
            st['json_compared'] += 1
            st['json_compared_after_conversion'] = st.get('json_compared_after_conversion', 0) + 1
            if not _printed_matches(conv, toks[0]) and not (lab in DISPLAYED_NEGATED and _printed_matches(-conv, toks[0])):
                problems.append(('json_mismatch', 'unit', f'{key!r}: the JSON says {v!r} {cu}, i.e. {conv!r} {unit_txt}; the report line {lab!r} '
                                                         f'prints {t[0].strip()!r}'))
            continue
        ok = _printed_matches(v, toks[0])
        if ok is None:
            continue
        if not ok and lab in DISPLAYED_NEGATED:
            ok = _printed_matches(-v, toks[0])
        st['json_compared'] += 1
        if not ok:
            problems.append(('json_mismatch', 'value', f'{key!r}: the JSON says {v!r} {cu}, the report line {lab!r} prints {t[0].strip()!r}'))
    return problems, st
