"""Batch driver shared by all checks: seeds -> farm -> records -> (known findings | shrink -> replay file ->
fresh-interpreter confirmation -> VIOLATION line) -> evidence file."""
import collections
import hashlib
import json
import os
import subprocess
import sys
import time

from . import runner

VERIF = os.path.dirname(os.path.dirname(os.path.abspath(__file__)))
REPO = os.environ.get('VERIF_REPO', '/repo')
DEFAULT_SEED = 20260926


def base_seed():
    try:
        return int(os.environ.get('VERIF_SEED', DEFAULT_SEED))
    except ValueError:
        return int(hashlib.sha256(os.environ['VERIF_SEED'].encode()).hexdigest()[:12], 16)


def jobs():
    try:
        return max(1, int(os.environ.get('VERIF_JOBS', os.cpu_count() or 4)))
    except ValueError:
        return 4


def run_seed(base, i):
    return (base * 1000003 + i * 7919 + 1) % (1 << 62)


def repo_head():
    try:
        return subprocess.run(['git', '-C', REPO, 'rev-parse', 'HEAD'], capture_output=True, text=True, timeout=20).stdout.strip()
    except Exception:  # noqa: BLE001
        return ''


def load_findings():
    p = os.path.join(VERIF, 'known_findings.json')
    try:
        with open(p) as f:
            return json.load(f).get('findings', [])
    except FileNotFoundError:
        return []


def match_finding(v, findings):
    for f in findings:
        if f.get('status') != 'open' or f.get('property') != v['property']:
            continue
        sig = f.get('signature', {})
        if sig.get('cls') == v['cls'] and (sig.get('cause') in (None, v['cause'])):
            return f
    return None


def cleanup_stale(max_age_s=3 * 3600):
    """sandboxes of runs that were killed from outside (wall limit) stay behind; remove the old ones"""
    import shutil
    from . import kernel as K_
    root = K_.scratch_root()
    now = time.time()
    try:
        names = os.listdir(root)
    except OSError:
        return
    for n in names:
        if n.startswith('dsim-'):
            p = os.path.join(root, n)
            try:
                if now - os.stat(p).st_mtime > max_age_s:
                    shutil.rmtree(p, ignore_errors=True)
            except OSError:
                pass


class HarnessFailure(Exception):
    pass


class Batch:
    """run payload_fn(i) for i = 0.. until n runs or the time budget is used"""

    def __init__(self, engine, prop, tier):
        self.engine = engine
        self.prop = prop
        self.tier = tier
        self.farm = None
        self.records = 0
        self.harness_errors = []

    def open(self, env=None):
        cleanup_stale()
        self.farm = runner.Farm(jobs(), self.engine.template_init, self.engine.run_one, env=env,
                                post_fn=getattr(self.engine, 'post_run', None))
        return self

    def close(self):
        if self.farm:
            self.farm.close()
            self.farm = None

    def run(self, payloads, timeout, deadline=None):
        for idx, pl, rec in self.farm.map(payloads, timeout, deadline):
            self.records += 1
            if rec.get('harness_error'):
                self.harness_errors.append((pl.get('seed'), rec['harness_error'], rec.get('detail', '')[:2000]))
            yield idx, pl, rec


def same_violation(rec, target):
    for v in rec.get('violations', []) or []:
        if v['property'] == target['property'] and v['cls'] == target['cls'] and v['cause'] == target['cause']:
            return v
    return None


def shrink(batch, payload, rec, target, max_replays=160, wall=45.0, timeout=60.0):
    """ddmin-style minimisation of the recorded choice list while the same violation class and cause persist"""
    best = list(rec['choices'])
    best_rec = rec
    t_end = time.monotonic() + wall
    used = 0

    def attempt(cands):
        nonlocal best, best_rec, used
        cands = [c for c in cands if c != best]
        if not cands:
            return False
        pls = [dict(payload, choices=c) for c in cands]
        results = {}
        for idx, pl, r in batch.run(pls, timeout):
            results[idx] = r
        used += len(cands)
        for i, c in enumerate(cands):
            r = results.get(i)
            if r and not r.get('harness_error') and same_violation(r, target):
                tr = r.get('choices', c)
                # keep the canonical (actually consumed) list; strip trailing zeros
                while tr and tr[-1] == 0:
                    tr = tr[:-1]
                if len(tr) < len(best) or (len(tr) == len(best) and sum(tr) < sum(best)) or tr != best:
                    if (len(tr), sum(tr)) <= (len(best), sum(best)):
                        best, best_rec = list(tr), r
                        return True
        return False

    while best and best[-1] == 0:
        best = best[:-1]
    # 0. operation-level pass (engines whose run is a list of operations): drop operations one at a time, greedily
    nops = len((rec.get('history') or {}).get('ops') or [])
    skip = list(payload.get('skip_ops') or [])
    if nops:
        changed = True
        while changed and used < max_replays and time.monotonic() < t_end:
            changed = False
            cand_idx = [i for i in range(nops) if i not in skip]
            pls = [dict(payload, choices=best, skip_ops=sorted(skip + [i])) for i in cand_idx]
            results = {}
            for idx, pl, r in batch.run(pls, timeout):
                results[idx] = r
            used += len(pls)
            for j, i in enumerate(cand_idx):
                r = results.get(j)
                if r and not r.get('harness_error') and same_violation(r, target):
                    skip.append(i)
                    best_rec = r
                    changed = True
                    # take every other single removal that also kept the violation, then re-verify the combination
                    more = [cand_idx[j2] for j2 in range(j + 1, len(cand_idx))
                            if results.get(j2) and not results[j2].get('harness_error') and same_violation(results[j2], target)]
                    if more:
                        trial = sorted(set(skip + more))
                        rr = None
                        for _, _, r2 in batch.run([dict(payload, choices=best, skip_ops=trial)], timeout):
                            rr = r2
                        used += 1
                        if rr and not rr.get('harness_error') and same_violation(rr, target):
                            skip = trial
                            best_rec = rr
                    break
        payload['skip_ops'] = sorted(skip)
        if skip:
            return best, best_rec, used
    progress = True
    while progress and used < max_replays and time.monotonic() < t_end:
        progress = False
        n = len(best)
        # 1. truncations (suffix becomes all-zero = simplest)
        cuts = sorted({n // 8, n // 4, n // 2, (3 * n) // 4, (7 * n) // 8, n - 8, n - 1} - {n})
        if attempt([best[:c] for c in cuts if 0 <= c < n]):
            progress = True
            continue
        # 2. lower the configuration choices at the head of the list one by one
        head = min(n, 40)
        cands = []
        for i in range(head):
            if best[i] > 0:
                cands.append(best[:i] + [0] + best[i + 1:])
                if best[i] > 1:
                    cands.append(best[:i] + [best[i] // 2] + best[i + 1:])
        if cands and attempt(cands[:48]):
            progress = True
            continue
        # 3. zero / delete blocks
        for size in (max(1, n // 4), max(1, n // 8), max(1, n // 16), 4, 1):
            if size >= n or used >= max_replays or time.monotonic() >= t_end:
                continue
            cands = []
            for start in range(0, n, size):
                blk = best[start:start + size]
                if any(blk):
                    cands.append(best[:start] + [0] * len(blk) + best[start + size:])
                if start >= head:
                    cands.append(best[:start] + best[start + size:])
            step = max(1, len(cands) // 32)
            if cands and attempt(cands[::step][:32]):
                progress = True
                break
    return best, best_rec, used


def machinery_digest():
    """digest of the simulator's own sources: a replay file is a function of (seed, choices, machinery, tree)"""
    import hashlib
    h = hashlib.sha256()
    d = os.path.dirname(os.path.abspath(__file__))
    for n in sorted(os.listdir(d)):
        if n.endswith('.py'):
            with open(os.path.join(d, n), 'rb') as f:
                h.update(n.encode() + b'\0' + f.read())
    return h.hexdigest()[:16]


def write_replay(prop, engine_name, payload, choices, rec, target):
    os.makedirs(os.path.join(VERIF, 'replays'), exist_ok=True)
    path = os.path.join(VERIF, 'replays', f"{prop}-{payload['seed']}-{target['cls']}.json")
    doc = {
        'property': prop, 'engine': engine_name, 'seed': payload['seed'], 'tier': payload.get('tier'),
        'force': payload.get('force'), 'extra': {k: v for k, v in payload.items() if k not in ('seed', 'tier', 'force', 'choices')},
        'choices': choices, 'expected': {'cls': target['cls'], 'cause': target['cause']},
        'detail': (same_violation(rec, target) or target)['detail'],
        'digest': rec.get('digest'), 'config': rec.get('config'), 'events': rec.get('events'),
        'trace_tail': rec.get('log'), 'repo_head': repo_head(), 'repo_path': REPO, 'machinery_digest': machinery_digest(),
        'replay_cmd': f'./check replay replays/{os.path.basename(path)}',
    }
    with open(path, 'w') as f:
        json.dump(doc, f, indent=1, default=str)
    return path


def confirm_replay(path, timeout=300):
    """replay in a fresh interpreter; True iff it reproduces the same violation with the same digest"""
    env = dict(os.environ)
    env.pop('VERIF_SEED', None)
    try:
        r = subprocess.run([sys.executable, os.path.join(VERIF, 'check'), 'replay', path], capture_output=True,
                           text=True, timeout=timeout, env=env, cwd=VERIF)
    except subprocess.TimeoutExpired:
        return False, 'timeout'
    return r.returncode == 1 and 'REPRODUCED' in r.stdout, (r.stdout + r.stderr)[-2000:]


def write_evidence(prop, tier, seed, coverage, assumptions, wall_s, violations):
    os.makedirs(os.path.join(VERIF, 'evidence'), exist_ok=True)
    if isinstance(coverage, dict) and 'tree_checked' not in coverage:
        # which source tree the simulated code was imported from (the working tree, committed or not)
        try:
            dirty = subprocess.run(['git', '-C', REPO, 'status', '--porcelain', '--', 'src'], capture_output=True, text=True,
                                   timeout=20).stdout.strip()
        except Exception:  # noqa: BLE001
            dirty = ''
        coverage['tree_checked'] = {'path': REPO, 'head': repo_head(), 'uncommitted_changes_under_src': len(dirty.split('\n')) if dirty else 0}
    doc = {'property_id': prop, 'tier': tier, 'seed': seed, 'level': 'exploration', 'coverage': coverage,
           'assumptions': assumptions, 'wall_s': round(wall_s, 2), 'violations': violations}
    path = os.path.join(VERIF, 'evidence', f'{prop}.json')
    tmp = path + '.tmp'
    with open(tmp, 'w') as f:
        json.dump(doc, f, indent=1, default=str)
    os.replace(tmp, path)
    return path


class Tally:
    def __init__(self):
        self.c = collections.Counter()
        self.sets = collections.defaultdict(set)

    def add(self, key, n=1):
        self.c[key] += n

    def merge(self, prefix, d):
        for k, v in (d or {}).items():
            self.c[f'{prefix}{k}'] += v

    def sub(self, prefix):
        return {k[len(prefix):]: v for k, v in sorted(self.c.items()) if k.startswith(prefix)}
