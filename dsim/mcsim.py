"""Engine mcsim: the real Monte-Carlo driver (MC_GeoPHIRES3.main + work_package + pylocker + clients +
simulators) executed on the simulated process pool / clock / file system of dsim.kernel.

One simulated execution feeds both C13 and C14; each property has its own violation classes.
"""
import collections
import hashlib
import json
import math
import os
import re
import shutil
import sys
import tempfile

from . import kernel as K
from . import workloads as WL
from .choice import ChoiceSource

REPO_SRC = os.path.join(os.environ.get('VERIF_REPO', '/repo'), 'src')

ITER_TABLE_HIP = [2, 3, 1, 4, 5, 6, 8, 10, 12, 16, 20, 24, 32, 40]
ITER_TABLE_GEO = [2, 3, 1, 4, 5, 6, 8]
W_TABLE = [2, 1, 3, 4, 8, 16]

_state = {}


# --------------------------------------------------------------------------------------
# template initialisation (once per template process)
# --------------------------------------------------------------------------------------
def template_init(j=0):
    os.environ.setdefault('MPLBACKEND', 'Agg')
    if not os.environ.get('VERIF_DEBUG'):
        dn = os.open(os.devnull, os.O_WRONLY)
        os.dup2(dn, 1)
        os.dup2(dn, 2)
    K.install()
    if REPO_SRC not in sys.path:
        sys.path.insert(0, REPO_SRC)
    import numpy  # noqa: F401
    import matplotlib
    matplotlib.use('Agg')
    import matplotlib.pyplot as plt
    import pandas  # noqa: F401
    import geophires_monte_carlo
    from geophires_monte_carlo import MC_GeoPHIRES3  # noqa: F401
    import geophires_x.GEOPHIRESv3 as g3
    import hip_ra_x.hip_ra_x as hx
    import hip_ra.HIP_RA as hr
    for m in (geophires_monte_carlo, g3, hx):
        f = os.path.abspath(m.__file__)
        if not f.startswith(os.path.abspath(REPO_SRC)):
            raise RuntimeError(f'{m.__name__} imported from {f}, expected under {REPO_SRC}')
    K.post_import_patch()
    _wrap_simulator(g3, 'main', 'geophires')
    _wrap_simulator(hx, 'main', 'hip_ra_x')
    _wrap_simulator(hr, 'main', 'hip_ra')
    _stub_pyplot(plt)
    if _toy_popen not in K.POPEN_HANDLERS:
        K.POPEN_HANDLERS.append(_toy_popen)
    # module-level generator objects of the Monte-Carlo package are process-private state as well
    _state['rng_modules'] = [m for n, m in sys.modules.items()
                             if n.startswith(('geophires_monte_carlo', 'geophires_x_client', 'hip_ra'))]
    # warm-up outside any simulation: triggers the lazy imports of both simulators
    _warm_up()
    # object addresses (id()) seen by repository code are simulated (kernel._sim_id)
    K.install_id_seam(('geophires_x', 'geophires_x_client', 'geophires_monte_carlo', 'hip_ra', 'hip_ra_x'))


def _wrap_simulator(mod, attr, label):
    real = getattr(mod, attr)
    if getattr(real, '_dsim', False):
        return

    def main(*a, **kw):
        p = K.cur()
        if p is None:
            return real(*a, **kw)
        k = p.kernel
        # a simulator run is one atomic step only for a *process*: it touches nothing but files private to its iteration.
        # Threads of one process share cwd and sys.argv, which every run rewrites, so for pool threads the run is
        # pre-emptible at each of its seams
        section = K.atomic_section('compute', label) if p.image is p else _NoSection(k, label)
        with section:
            try:
                r = real(*a, **kw)
            except BaseException as e:  # noqa: BLE001
                k.note('sim_end', ok=False, task=p.task, exc=type(e).__name__, msg=str(e)[:200])
                raise
            k.note('sim_end', ok=True, task=p.task)
            return r
    main._dsim = True
    main.__wrapped__ = real
    setattr(mod, attr, main)


def _toy_popen(p, argv, kw):
    """the child process the driver starts for a Code_File it does not know: `python <site_model.py> <input> <output>` runs to
    completion as one step of the calling worker (it touches only the two files named on its command line)"""
    if not isinstance(argv, (list, tuple)) or len(argv) < 4 or os.path.basename(str(argv[1])) != WL.TOY_NAME:
        return None
    k = p.kernel
    with K.atomic_section('compute', 'site_model'):
        try:
            with K._real['open'](str(argv[2]), encoding='utf-8') as f:
                txt = f.read()
        except OSError as e:
            k.note('sim_end', ok=False, task=p.task, exc=type(e).__name__, msg='input file')
            return 2
        rep = WL.toy_report(txt)
        if rep is None:
            k.note('sim_end', ok=False, task=p.task, exc='exit status 1', msg='the program wrote no report')
            return 1
        with K._real['open'](str(argv[3]), 'w', encoding='utf-8') as f:
            f.write(rep)
        k.touch_path(os.path.abspath(str(argv[3])))
        k.note('sim_end', ok=True, task=p.task)
        return 0


class _NoSection:
    def __init__(self, k, label):
        self.k, self.label = k, label

    def __enter__(self):
        self.k.seam('compute', self.label + ' (thread: pre-emptible)')

    def __exit__(self, *a):
        return False


class _Ax:
    def __getattr__(self, n):
        return lambda *a, **kw: None


def _stub_pyplot(plt):
    import numpy as np
    real = {n: getattr(plt, n) for n in ('figure', 'subplot', 'figtext', 'hist', 'savefig', 'close')}

    def disp(name, sim):
        def f(*a, **kw):
            if K.cur() is None:
                return real[name](*a, **kw)
            return sim(*a, **kw)
        f.__name__ = name
        return f

    def hist(x, bins=10, density=False, **kw):
        # what Axes.hist does with one data set: the range comes from nanmin/nanmax (missing values are left out of the bins);
        # data without any finite value make numpy raise, as they do through matplotlib
        import warnings
        x = np.asarray(x, dtype=float)
        rng = None
        with np.errstate(all='ignore'), warnings.catch_warnings():
            warnings.simplefilter('ignore')
            xmin, xmax = np.inf, -np.inf
            if len(x):
                xmin, xmax = min(xmin, np.nanmin(x)), max(xmax, np.nanmax(x))
            if xmin <= xmax:
                rng = (xmin, xmax)
            n, edges = np.histogram(x, bins=bins, range=rng, density=density)
        return n, edges, None
    plt.figure = disp('figure', lambda *a, **kw: _Ax())
    plt.subplot = disp('subplot', lambda *a, **kw: _Ax())
    plt.figtext = disp('figtext', lambda *a, **kw: None)
    plt.hist = disp('hist', hist)
    plt.savefig = disp('savefig', lambda *a, **kw: None)
    plt.close = disp('close', lambda *a, **kw: None)


def _warm_up():
    d = tempfile.mkdtemp(prefix='dsim-warm-', dir=K.scratch_root())
    old_tmp = tempfile.tempdir
    tempfile.tempdir = d
    cwd = os.getcwd()
    argv = sys.argv
    try:
        for prog, base in (('hip', WL.HIP_BASE), ('hipold', WL.HIPOLD_BASE), ('geo', WL.GEO_BASE)):
            p = os.path.join(d, f'{prog}.txt')
            with open(p, 'w') as f:
                f.write(base)
            try:
                reference_run(prog, p)
            except Exception:  # noqa: BLE001
                pass
        # a third GEOPHIRES base input: the S-DAC-GT example, whose report prints values with thousands separators.
        # Only OUTPUT labels that match exactly one line of its report (by the driver's own criterion) are used with it.
        try:
            with open(os.path.join(os.environ.get('VERIF_REPO', '/repo'), 'tests', 'examples', 'S-DAC-GT.txt'), encoding='utf-8') as f:
                txt = f.read() + '\nPrint Output to Console, 0\n'
            p = os.path.join(d, 'geo3.txt')
            with open(p, 'w') as f:
                f.write(txt)
            rep = reference_run('geo', p).split('\n')
            labels = [o for o in WL.GEO_OUTPUTS + ['Total Cost of Capture', 'Total Tonnes of CO2 Captured']
                      if sum(1 for ln in rep if f'  {o}: ' in ln) == 1]
            if len(labels) >= 6 and 'Total Cost of Capture' in labels:
                _state['geo3'] = {'text': txt, 'outputs': labels}
        except Exception:  # noqa: BLE001
            pass
    finally:
        os.chdir(cwd)
        sys.argv = argv
        tempfile.tempdir = old_tmp
        shutil.rmtree(d, ignore_errors=True)


def reference_run(prog, input_path):
    """run one input through the real client outside any simulation; returns report text"""
    from pathlib import Path
    if prog == 'toy':
        with K._real['open'](input_path, encoding='utf-8') as f:
            rep = WL.toy_report(f.read())
        if rep is None:
            raise RuntimeError('the program wrote no report')
        return rep
    cwd = os.getcwd()
    argv = sys.argv
    try:
        if prog in ('hip', 'hipold'):
            from hip_ra import HipRaInputParameters
            if prog == 'hip':
                from hip_ra_x import HipRaXClient as _Client
            else:
                from hip_ra import HipRaClient as _Client
            r = _Client().get_hip_ra_result(HipRaInputParameters(Path(input_path)))
            with open(r.output_file_path) as f:
                txt = f.read()
            os.unlink(r.output_file_path)
            return txt
        from geophires_x_client import GeophiresInputParameters
        from geophires_x_client import GeophiresXClient
        ip = GeophiresInputParameters(from_file_path=Path(input_path))
        r = GeophiresXClient(enable_caching=False).get_geophires_result(ip)
        with open(r.output_file_path) as f:
            txt = f.read()
        for q in (str(r.output_file_path), str(r.output_file_path).replace('.out', '.json')):
            try:
                os.unlink(q)
            except OSError:
                pass
        return txt
    finally:
        os.chdir(cwd)
        sys.argv = argv


class Replayer:
    """Re-simulation of rows in a PRISTINE process.  The child that executes a simulated run has, by the time its rows are
    re-simulated, run every iteration of the Monte-Carlo job in its own address space: whatever the simulator modules memoise at
    module or class level is filled, and a re-simulation in that process would be served the very values the iterations were
    served (a memo keyed on too little reproduces its own mistakes).  So, before the run child executes anything, it forks this
    helper from its still pristine state; every request is run in a further fork of the helper (re-simulations do not see each
    other either) and the report text comes back over a pipe."""

    def __init__(self, tmpdir):
        import struct
        self._struct = struct
        r1, w1 = os.pipe()
        r2, w2 = os.pipe()
        sys.stdout.flush()
        sys.stderr.flush()
        pid = K._real['os.fork']()
        if pid == 0:
            try:
                os.close(w1)
                os.close(r2)
                self._serve(r1, w2, tmpdir)
            except BaseException:  # noqa: BLE001
                pass
            finally:
                K._real['os._exit'](0)
        os.close(r1)
        os.close(w2)
        self.pid, self.w, self.r = pid, w1, r2
        self.n = 0

    @staticmethod
    def _read_exact(fd, n):
        buf = b''
        while len(buf) < n:
            chunk = os.read(fd, n - len(buf))
            if not chunk:
                raise EOFError('replayer pipe closed')
            buf += chunk
        return buf

    @staticmethod
    def _write_all(fd, data):
        view = memoryview(data)
        while view:
            n = os.write(fd, view)
            view = view[n:]

    def _serve(self, r, w, tmpdir):
        import signal
        st = self._struct
        while True:
            try:
                n = st.unpack('<I', self._read_exact(r, 4))[0]
            except EOFError:
                return
            prog, path = json.loads(self._read_exact(r, n))
            rr, ww = os.pipe()
            gp = K._real['os.fork']()
            if gp == 0:
                try:
                    os.close(rr)
                    signal.alarm(240)
                    tempfile.tempdir = tmpdir
                    try:
                        out = ['ok', reference_run(prog, path)]
                    except BaseException as e:  # noqa: BLE001
                        out = ['raised', f'{type(e).__name__}: {str(e)[:120]}']
                    self._write_all(ww, json.dumps(out).encode())
                except BaseException:  # noqa: BLE001
                    pass
                finally:
                    K._real['os._exit'](0)
            os.close(ww)
            chunks = []
            while True:
                c_ = os.read(rr, 1 << 16)
                if not c_:
                    break
                chunks.append(c_)
            os.close(rr)
            os.waitpid(gp, 0)
            data = b''.join(chunks) or json.dumps(['raised', 'HarnessError: the re-simulation process ended without an answer']).encode()
            self._write_all(w, st.pack('<I', len(data)) + data)

    def run(self, prog, path):
        st = self._struct
        req = json.dumps([prog, path]).encode()
        self._write_all(self.w, st.pack('<I', len(req)) + req)
        n = st.unpack('<I', self._read_exact(self.r, 4))[0]
        kind, val = json.loads(self._read_exact(self.r, n))
        self.n += 1
        if kind != 'ok':
            raise RuntimeError(val)
        return val

    def close(self):
        for fd in (self.w, self.r):
            try:
                os.close(fd)
            except OSError:
                pass
        try:
            os.waitpid(self.pid, 0)
        except OSError:
            pass


_REPLAYER = None


# --------------------------------------------------------------------------------------
# configuration (all of it drawn from the ChoiceSource; index 0 is always the simplest)
# --------------------------------------------------------------------------------------
def gen_config(cs, tier='quick', force=None):
    force = force or {}
    c = {}
    c['mode'] = force.get('mode') or ('strict' if cs.choose(4, 'mode') < 3 else 'extended')
    c['program'] = force.get('program') or ['hip', 'hip', 'hip', 'hip', 'hipold', 'geo', 'geo', 'toy'][cs.choose(8, 'program')]
    hip = c['program'] != 'geo'
    c['base'] = cs.choose(2, 'base')
    if force.get('base') is not None:
        c['base'] = force['base']
    table = {'hip': WL.HIP_INPUTS, 'hipold': WL.HIPOLD_INPUTS, 'geo': WL.GEO_INPUTS, 'toy': WL.TOY_INPUTS}[c['program']]
    outs = {'hip': WL.HIP_OUTPUTS, 'hipold': WL.HIPOLD_OUTPUTS, 'geo': WL.GEO_OUTPUTS, 'toy': WL.TOY_OUTPUTS}[c['program']]
    if c['program'] == 'geo' and _state.get('geo3') and force.get('base') is None and cs.choose(3, 'geo3') == 2:
        c['base'] = 2
        outs = list(reversed(_state['geo3']['outputs']))     # the separator-printed outputs first in the pick order
    c['iter_fail'] = cs.choose(3, 'iter_fail') == 2
    names = list(table)
    if force.get('discrete'):
        # (forced: a settings file with discrete inputs only, so that sampled combinations repeat within a worker)
        names = [n_ for n_ in names if any(x[0] == 'binomial' for x in table[n_]['ok'])]
    nin = 1 + cs.choose(min(4, len(names)), 'nin')
    inputs = []
    all_discrete = False
    for j_ in range(4):
        if j_ >= nin or not names:
            break
        name = names.pop(cs.choose(len(names), 'in'))
        spec = table[name]
        has_binom = [x for x in spec['ok'] if x[0] == 'binomial']
        if j_ == 0 and has_binom and (cs.choose(3 if not spec.get('discrete') else 2, 'all_discrete') == 1 or force.get('discrete')):
            # settings files with discrete inputs only: sampled combinations repeat
            all_discrete = True
            names = [n_ for n_ in names if any(x[0] == 'binomial' for x in table[n_]['ok'])]
            nin = min(nin, 1 + len(names))
        if all_discrete and has_binom:
            d = has_binom[cs.choose(len(has_binom), 'bdist')]
            edge = False
        elif c['iter_fail'] and spec['edge'] and cs.choose(2, 'edge') == 1:
            d = spec['edge'][cs.choose(len(spec['edge']), 'edgedist')]
            edge = True
        else:
            d = spec['ok'][cs.choose(len(spec['ok']), 'dist')]
            edge = False
        inp_ = {'name': name, 'dist': d[0], 'args': list(d[1:]), 'edge': edge, 'discrete': d[0] == 'binomial'}
        # the documented "#" placeholder: "use the value from the base input file as the mean / mode"
        if not edge and d[0] in ('normal', 'triangular') and cs.choose(4, 'hash') == 3:
            bv = _base_value(base_text(c), name)
            k_ = 0 if d[0] == 'normal' else 1
            if bv is not None and (d[0] == 'normal' or d[1] < bv < d[3]):
                inp_['args'][k_] = bv
                inp_['hash_arg'] = k_
        inputs.append(inp_)
    if force.get('inputs'):
        inputs = [dict(x) for x in force['inputs']]
    c['special'] = None
    sp_ = cs.choose(12, 'special') if c['program'] == 'hip' and not force.get('inputs') else 0
    if sp_ == 10:
        # a very large reservoir: results that need more characters than their column has (1,000,000 MW and more on a long
        # label), for some of the rows only
        c['special'] = 'hip_huge'
        inputs = [dict(x) for x in WL.HIP_HUGE_INPUTS]
    if sp_ == 11:
        # the -9999.0 exclusion rule of the summary
        c['special'] = 'exclusion_rule'
        # (an extra input is kept only if its arguments do not depend on the base input, which this scenario replaces)
        inputs = [dict(WL.HIP_9999_INPUT)] + [i_ for i_ in inputs if i_['name'] == 'Reservoir Area' and not i_['edge']
                                                and i_.get('hash_arg') is None][:1]
    sg_ = cs.choose(5, 'special_geo') if c['program'] == 'geo' and not force.get('inputs') and force.get('base') is None and not force.get('discrete') else 0
    if sg_ == 4:
        # multiple parallel fractures with only the fracture separation sampled (see workloads.GEO_MPF_EXTRA)
        c['special'] = 'mpf'
        c['base'] = 1
        outs = WL.GEO_MPF_OUTPUTS
        inputs = [dict(WL.GEO_MPF_INPUTS[cs.choose(len(WL.GEO_MPF_INPUTS), 'mpf_in')])]
    if sg_ == 3:
        # the report of the simulator changes its LAYOUT between the iterations of one run: a sampled input straddles the
        # point where a line of the report is left out (no pumping needed -> no 'Initial pumping power/net installed
        # power' line; conversion efficiency not positive -> no 'Heat to Power Conversion Efficiency' line), so every
        # line below it moves by one
        c['special'] = 'layout_shift'
        c['base'] = 1
        outs = WL.GEO_OUTPUTS
        inputs = [dict(WL.GEO_LAYOUT_INPUTS[cs.choose(len(WL.GEO_LAYOUT_INPUTS), 'layout_in')])] + \
                 [i_ for i_ in inputs if i_['name'] not in ('Drawdown Parameter', 'Reservoir Impedance') and not i_['edge']
                  and i_.get('hash_arg') is None][:1]
    c['inputs'] = inputs
    nout = 1 + cs.choose(5, 'nout')
    on = list(outs)
    if c['special'] == 'mpf':
        nout = max(nout, 2)
    c['outputs'] = [on.pop(cs.choose(len(on), 'out')) for _ in range(min(nout, len(on)))]
    if c['special'] == 'layout_shift':
        keep = c['outputs'][:2]
        must = [o for o in WL.GEO_LAYOUT_OUTPUTS[inputs[0]['name']] if o not in keep]
        c['outputs'] = (keep + must) if cs.choose(2, 'lorder') == 0 else (must + keep)
    if c['special'] == 'exclusion_rule':
        c['outputs'] = list(WL.HIP_9999_OUTPUTS) if cs.choose(2, 'sorder') == 0 else list(reversed(WL.HIP_9999_OUTPUTS))
    # an OUTPUT that no report of the run carries (misspelt, or not applicable to this kind of model), listed in front of at
    # least one that is reported: its column holds the placeholder in every row
    c['absent_output'] = None
    if not c['special'] and cs.choose(10, 'absent_output') == 9:
        c['absent_output'] = {'hip': 'Produced Electricity (reservoir)', 'hipold': 'Produced Electricity', 'geo': 'Levelized Cost of Unobtainium',
                              'toy': 'Unit Price'}[c['program']]
        c['outputs'].insert(cs.choose(len(c['outputs']), 'absent_pos'), c['absent_output'])
    if c['special'] == 'hip_huge':
        c['outputs'] = list(WL.HIP_HUGE_OUTPUTS) if cs.choose(2, 'horder') == 0 else list(reversed(WL.HIP_HUGE_OUTPUTS))
    # an OUTPUT that the program prints as a number in some iterations and as the text 'N/A' in others
    c['na_output'] = None
    if c['program'] == 'toy' and cs.choose(3, 'na_output') == 2:
        c['na_output'] = WL.TOY_NA_OUTPUT
        c['outputs'].insert(cs.choose(len(c['outputs']) + 1, 'na_pos'), c['na_output'])
    # the base input states a sampled parameter TWICE (what a base file assembled from a template plus overrides looks like); the
    # simulators keep the last entry of a name
    c['dup_param'] = None
    if c['program'] in ('hip', 'geo', 'toy') and c['special'] in (None, 'mpf') and cs.choose(6, 'dup_param') == 5:
        cand_ = [i_['name'] for i_ in inputs if _base_value(base_text(c), i_['name']) is not None]
        if cand_ and not any(i_.get('hash_arg') is not None for i_ in inputs):
            c['dup_param'] = cand_[cs.choose(len(cand_), 'dup_which')]
    it = ITER_TABLE_HIP if hip else ITER_TABLE_GEO
    if tier == 'thorough':
        it = it + ([64, 100, 200] if hip else [12, 16])
    c['iterations'] = force.get('iterations') or it[cs.choose(len(it), 'iterations')]
    c['W'] = force.get('W') or W_TABLE[cs.choose(len(W_TABLE), 'W')]
    c['np_seed'] = cs.choose(1 << 30, 'np_seed')
    # a Monte-Carlo run is sometimes preceded, in the same driver process, by an earlier small run (a history of runs):
    # whatever that leaves behind in the parent is inherited by the workers forked for the run under test
    c['pre_run'] = [None, None, None, 1, 2, 3][cs.choose(6, 'pre_run')]
    c['pre_same_out'] = cs.choose(2, 'pre_same_out') == 1      # the earlier run wrote to the very same result file
    # the base input file had OTHER content during the earlier run (same path, edited in between)
    c['pre_other_base'] = bool(c['pre_run']) and cs.choose(3, 'pre_other_base') == 2
    # the earlier run tracked another OUTPUT list (reversed, and one fewer if there are several): its rows and summary have
    # another shape than those of the run under test
    c['pre_other_outputs'] = bool(c['pre_run']) and cs.choose(3, 'pre_other_outputs') == 2
    c['pre_same_settings'] = bool(c['pre_run']) and cs.choose(3, 'pre_same_settings') == 2
    if c['pre_same_settings']:
        c['pre_other_outputs'] = False
        if any(i_.get('hash_arg') is not None for i_ in c['inputs']):
            # a '#' argument means "the value of the base input": the same settings file on another base content is another request
            c['pre_other_base'] = True
    c['settings_out'] = [0, 0, 0, 0, 0, 0, 1, 2][cs.choose(8, 'settings_out')]   # MC_OUTPUT_FILE line (1: alone, 2: plus another path on the command line)
    # sometimes a second, independent Monte-Carlo driver process runs at the same time on the same machine (same temp
    # directory, a base input file with the same name in another project directory, its own settings and result file)
    c['second_driver'] = cs.choose(5, 'second_driver') == 4
    # crash and restart: the very same command was started before and its whole job (driver and workers) was killed at an
    # arbitrary system call of the driver; what it left behind - a result file without summary, scratch files, a half-written
    # JSON - is what the run under test starts from (only what had reached the kernel survives)
    c['crash_restart'] = None
    if not c['second_driver'] and (cs.choose(6, 'crash_restart') == 5 or force.get('crash_restart')):
        c['crash_restart'] = 1 + cs.choose(c['iterations'] * 4 + 40, 'crash_at')
        c['pre_run'] = None
        # ... and half of the time the user changed the distributions (same INPUT and OUTPUT names) before starting again
        c['crash_other_settings'] = cs.choose(2, 'crash_other_settings') == 1
    if c['second_driver']:
        c['pre_run'] = None
        # ...or in the very same project directory, on the very same base input file (own settings and result file)
        c['second_same_dir'] = cs.choose(2, 'second_same_dir') == 1
        c['np_seed_b'] = cs.choose(1 << 30, 'np_seed_b')
    # delay regime
    ext = c['mode'] == 'extended'
    scales = [1e-5, 1e-6, 1e-4] if not ext else [1e-2, 1e-3, 1e-1]
    s = scales[cs.choose(len(scales), 'scale')]
    tail = cs.choose(3, 'tail')
    cap = 1e-3 if not ext else 60.0
    if tail == 0:
        tab = [s]
    elif tail == 1:
        tab = [s * (i + 1) for i in range(8)]
    else:
        tab = [min(s * (2 ** i), cap) for i in range(11)]
    c['delay_table'] = tab
    # duration of one simulator run: from nothing to ten minutes (a slow iteration is a legal schedule, not a fault)
    cb = [0.0, 1e-4, 1e-2, 1.0, 30.0, 600.0][cs.choose(6, 'cscale')]
    c['compute_table'] = [cb * (1 + j / 8) for j in range(8)] if cs.choose(2, 'cjit') else [cb]
    sp = {}
    if cs.choose(3, 'speeds') == 2:
        for i in range(1, c['W'] + 1):
            sp[i] = [1.0, 2.0, 4.0][cs.choose(3, 'speed')]
    c['speeds'] = sp
    c['pid_gap'] = [0, 0, 7, 40][cs.choose(4, 'pid_gap')]
    # the driver is called from a process that has other live threads (a service, a notebook kernel, a debugger)
    c['host_threads'] = [1, 1, 1, 2, 5][cs.choose(5, 'host_threads')]
    c['spelling'] = [0, 0, 1, 2, 3, 4][cs.choose(6, 'spelling')]
    c['out_name'] = ['MC_Result.txt', 'MC_Result.txt', 'mc.result.v2.txt', 'RESULT', 'r.out', 'out.d/res.txt'][cs.choose(6, 'out_name')]
    c['clock0'] = cs.choose(1000, 'clock0s') + cs.choose(1000, 'clock0ms') / 1000.0
    c['faults'] = []
    if c['iter_fail']:
        c['faults'].append('iter_fail')
    if ext:
        kinds = ['short_write', 'stall', 'clock_jump', 'stale_lock', 'kill', 'disk_full']
        en = [k for k in kinds if cs.choose(2, 'f_' + k)]
        if not en:
            en = [kinds[cs.choose(len(kinds), 'f_one')]]
        c['faults'] += en
        est = c['iterations'] * 30 + 60
        if 'stall' in en:
            c['stalls'] = {str(cs.choose(est, 'stall_at')): [1.0, 5.0, 15.0, 60.0, 200.0][cs.choose(5, 'stall_len')]
                           for _ in range(1 + cs.choose(3, 'nstall'))}
        if 'clock_jump' in en:
            c['clock_jumps'] = sorted([cs.choose(est, 'jump_at'),
                                       [1.0, -1.0, 30.0, -30.0, 300.0, -300.0, 3600.0, -3600.0][cs.choose(8, 'jump')]]
                                      for _ in range(1 + cs.choose(2, 'njump')))
        if 'stale_lock' in en:
            c['stale_lock'] = {'pid': ['dead', 'live'][cs.choose(2, 'sl_pid')],
                               'age': [0.0, 5.0, 119.0, 121.0, 1000.0][cs.choose(5, 'sl_age')]}
        if 'disk_full' in en:
            # the n-th append of a worker to a scratch file stores 0, 1/4, 1/2 or 3/4 of its bytes and fails with ENOSPC
            c['disk_full'] = [1 + cs.choose(2 * c['iterations'] + 2, 'df_at'), cs.choose(4, 'df_keep')]
        if 'kill' in en:
            c['kill_plan'] = [cs.choose(c['W'], 'kill_w'), 1 + cs.choose(est // max(1, c['W']) + 5, 'kill_at')]
    return c


def _base_value(text, name):
    """value of the base-input line whose parameter name is exactly `name`"""
    for ln in text.split('\n'):
        parts = ln.split(',')
        if len(parts) >= 2 and parts[0].strip() == name:
            try:
                return float(parts[1].split('--')[0].strip())
            except ValueError:
                return None
    return None


def _sci(a):
    for p in range(1, 18):
        s_ = f'{a:.{p}e}'
        if float(s_) == a:
            return ('+' if a > 0 else '') + s_.replace('e', 'E')
    return repr(a)


def settings_text(c):
    """the settings file, in one of several spellings that the pinned parser treats alike: padded with blanks and tabs, with
    words after the distribution name ('uniform distribution'), integral arguments written as integers, the three kinds of
    line interleaved (the relative order of the INPUT lines and of the OUTPUT lines - the header order - is kept), a
    trailing comma after the iteration count"""
    sp = c.get('spelling', 0)
    ins, outs = [], []
    for i in c['inputs']:
        args = [repr(a) if isinstance(a, float) else str(a) for a in i['args']]
        if sp in (2, 3):
            args = [str(int(a)) if isinstance(a, float) and a == int(a) and abs(a) < 1e15 else s_ for a, s_ in zip(i['args'], args)]
        if sp == 4:
            # scientific notation and explicit signs: every spelling float() accepts is a legal argument
            args = [_sci(a) if isinstance(a, float) else ('+' + s_ if i['dist'] != 'binomial' and not s_.startswith('-') else s_) for a, s_ in zip(i['args'], args)]
        if i.get('hash_arg') is not None:
            args[i['hash_arg']] = '#'
        dist = i['dist'] + (' distribution' if sp == 2 else '')
        if sp == 1:
            ins.append('INPUT,\t ' + i['name'] + '  ,  ' + dist + ' ,   ' + ' ,\t'.join(args) + '  ')
        else:
            ins.append('INPUT, ' + i['name'] + ', ' + dist + ', ' + ', '.join(args))
    for o in c['outputs']:
        outs.append(('OUTPUT,   ' if sp == 1 else 'OUTPUT, ') + o + ('  ' if sp == 1 else ''))
    it = f"ITERATIONS, {c['iterations']}" + (',' if sp == 3 else '')
    if sp == 3:
        # iteration count first, then OUTPUT and INPUT lines alternating
        lines = [it]
        a, b = list(outs), list(ins)
        while a or b:
            if a:
                lines.append(a.pop(0))
            if b:
                lines.append(b.pop(0))
    else:
        lines = ins + outs + [it]
    return '\n'.join(lines) + '\n'


def _other_settings(c):
    """the same INPUT and OUTPUT names with other legal distributions (what the settings file said before the user edited it),
    and enough iterations for the job to be still running when it is killed"""
    table = {'hip': WL.HIP_INPUTS, 'hipold': WL.HIPOLD_INPUTS, 'geo': WL.GEO_INPUTS, 'toy': WL.TOY_INPUTS}[c['program']]
    ins = []
    for i in c['inputs']:
        spec = table.get(i['name'])
        alt = None
        if spec is not None:
            for d in spec['ok']:
                if (d[0] == 'binomial') == bool(i['discrete']) and (d[0] != i['dist'] or list(d[1:]) != list(i['args'])):
                    alt = d
                    break
        if alt is None:
            ins.append(dict(i))
        else:
            ins.append({'name': i['name'], 'dist': alt[0], 'args': list(alt[1:]), 'edge': False, 'discrete': alt[0] == 'binomial'})
    return dict(c, inputs=ins, iterations=max(c['iterations'], 8))


def iter_key(b, in_names):
    """'name:value;...' of the values an iteration's private input file gives to the sampled parameters.  The simulators keep the
    LAST entry of a name, so that is the value the iteration was simulated with - whether the driver appends its draws to a copy of
    the base input or rewrites lines in place.  (Falls back to the last lines of what was written when a name is not there.)"""
    lines_ = [x for x in b.decode('utf-8', 'replace').split('\n') if x.strip()]
    eff = {}
    for x in lines_:
        if x.lstrip().startswith('#') or ',' not in x:
            continue
        n_, _, rest = x.partition(',')
        eff[n_.strip()] = rest.split(',')[0].split('--')[0].strip()
    if in_names and all(n_ in eff for n_ in in_names):
        return ''.join(f'{n_}:{eff[n_]};' for n_ in in_names)
    return ''.join(x.replace(', ', ':') + ';' for x in lines_[-len(in_names):])


def _ok_keys(notes, in_names):
    """sampled-value keys of the successfully simulated iterations in `notes` (same reconstruction as analyse)"""
    by_file, last, out = {}, {}, collections.Counter()
    for kind, n in notes:
        t = n.get('task')
        if kind == 'write' and n['path'].startswith('tmp/') and t is not None:
            it = by_file.get((n.get('pid'), t, n['path']))
            if it is None:
                it = {'entries': b'', 'sim': None}
                by_file[(n.get('pid'), t, n['path'])] = it
                last[(n.get('pid'), t)] = it
            it['entries'] += n['data']
        elif kind == 'sim_end':
            it = last.get((n.get('pid'), t))
            if it is not None and it['sim'] is None:
                it['sim'] = bool(n['ok'])
    for it in by_file.values():
        if it['sim']:
            out[iter_key(it['entries'], in_names)] += 1
    return out


def _other_base_text(c):
    """another legal base input of the same program (what the file at the same path held during an earlier run)"""
    if c['program'] == 'hip':
        return WL.HIP_BASE_2 if base_text(c) == WL.HIP_BASE else WL.HIP_BASE
    if c['program'] == 'hipold':
        return WL.HIPOLD_BASE_2 if base_text(c) == WL.HIPOLD_BASE else WL.HIPOLD_BASE
    if c['program'] == 'toy':
        return WL.TOY_BASE_2 if base_text(c) == WL.TOY_BASE else WL.TOY_BASE
    return WL.GEO_BASE_2 if base_text(c) == WL.GEO_BASE else WL.GEO_BASE


def base_text(c):
    t = _base_text0(c)
    dp = c.get('dup_param')
    if dp:
        for ln in t.split('\n'):
            parts = ln.split(',')
            if len(parts) >= 2 and parts[0].strip() == dp:
                # (the same value once more, in front: the entry further down is the one that counts)
                return f'{dp}, {parts[1].strip()}\n' + t
    return t


def _base_text0(c):
    if c.get('special') == 'exclusion_rule':
        return WL.HIP_9999_BASE
    if c.get('special') == 'mpf':
        return WL.GEO_BASE_2 + WL.GEO_MPF_EXTRA
    if c['program'] == 'hip':
        return [WL.HIP_BASE, WL.HIP_BASE_2][c['base']]
    if c['program'] == 'hipold':
        return [WL.HIPOLD_BASE, WL.HIPOLD_BASE_2][c['base']]
    if c['program'] == 'toy':
        return [WL.TOY_BASE, WL.TOY_BASE_2][c['base']]
    if c['base'] == 2:
        return _state['geo3']['text']
    return [WL.GEO_BASE, WL.GEO_BASE_2][c['base']]


# --------------------------------------------------------------------------------------
# one simulated execution
# --------------------------------------------------------------------------------------
def run_one(payload):
    import numpy as np
    import random as _random
    seed = payload['seed']
    cs = ChoiceSource(seed, replay=payload.get('choices'), keep_labels=payload.get('labels', False))
    tier = payload.get('tier', 'quick')
    c = gen_config(cs, tier, payload.get('force'))
    sandbox = K.make_sandbox('mc', seed)
    rec = {'seed': seed, 'engine': 'mcsim', 'config': c}
    global _REPLAYER
    try:
        os.makedirs(os.path.join(sandbox, 'tmp'))
        os.makedirs(os.path.join(sandbox, 'tmp-replay'))
        _REPLAYER = Replayer(os.path.join(sandbox, 'tmp-replay')) if not payload.get('replay_in_process') else None
        work = os.path.join(sandbox, 'work')
        os.makedirs(work)
        os.makedirs(os.path.join(work, 'pre'))
        tempfile.tempdir = os.path.join(sandbox, 'tmp')
        inp = os.path.join(work, 'base_input.txt')
        stg = os.path.join(work, 'mc_settings.txt')
        out = os.path.join(work, c.get('out_name', 'MC_Result.txt'))
        os.makedirs(os.path.dirname(out), exist_ok=True)
        with open(inp, 'w') as f:
            f.write(base_text(c))
        with open(stg, 'w') as f:
            f.write(settings_text(c) + (f'MC_OUTPUT_FILE, {out}\n' if c.get('settings_out') else ''))
        simcfg = dict(delay_table=c['delay_table'], compute_table=c['compute_table'], cpu_count=c['W'],
                      speeds={int(k_): v for k_, v in c['speeds'].items()},
                      stalls={int(k_): v for k_, v in c.get('stalls', {}).items()},
                      clock_jumps=[tuple(x) for x in c.get('clock_jumps', [])],
                      short_write='short_write' in c['faults'], kill_plan=c.get('kill_plan'), disk_full=c.get('disk_full'),
                      repo_src=REPO_SRC, step_cap=payload.get('step_cap', 300000), capture_copies=True, pid_gap=c.get('pid_gap', 0),
                      host_threads=c.get('host_threads', 1))
        k = K.Kernel(cs, simcfg, sandbox, run_seed=seed)
        # the run starts at an arbitrary instant of the wall clock (second boundaries fall anywhere)
        k.clock_offset = c.get('clock0', 0.0)
        k.rng_objects = _find_rng_objects()
        k.rng_finder = _find_rng_objects
        # module-level variables of the Monte-Carlo package are per process (lazily created clients, generators, counters, caches)
        # ... and so are those of the client packages the workers use, and the state-holding class attributes of all of them
        k.virtual_modules = [mod_ for n_, mod_ in sorted(sys.modules.items())
                             if n_.split('.')[0] in ('geophires_monte_carlo', 'geophires_x_client', 'hip_ra', 'hip_ra_x') and mod_ is not None]
        if 'stale_lock' in c:
            sl = c['stale_lock']
            pid = 777 if sl['pid'] == 'live' else 778
            if sl['pid'] == 'live':
                k.foreign_live_pids.add(pid)
            with open(os.path.join(work, '.lock'), 'wb') as f:
                f.write(('stale-pass\n%.6f\n%d' % (k.wall() - sl['age'], pid)).encode())
            k.fault_fired['stale_lock'] += 1
        priv = K.Priv(np.random.RandomState(c['np_seed']).get_state(), _random.Random(c['np_seed']).getstate(),
                      work, ['mc-driver'])
        outcome = {}

        toy_code = os.path.join(work, 'models', WL.TOY_NAME)
        if c['program'] == 'toy':
            os.makedirs(os.path.dirname(toy_code), exist_ok=True)
            with open(toy_code, 'w') as f:
                f.write('# user-supplied program: <input file> <output file>\n')

        def launch(prog, inp_, stg_, out_):
            """one Monte-Carlo run through the public client - or, for a program the client has no name for, through the driver's
            own entry point the way `python -m geophires_monte_carlo <Code_File> <input> <settings> <output>` calls it"""
            from pathlib import Path
            from geophires_monte_carlo import GeophiresMonteCarloClient
            from geophires_monte_carlo import MonteCarloRequest
            if c['program'] != 'toy':
                return GeophiresMonteCarloClient().get_monte_carlo_result(MonteCarloRequest(prog, Path(inp_), Path(stg_), Path(out_)))
            from geophires_monte_carlo import MC_GeoPHIRES3
            cwd0 = os.getcwd()
            try:
                return MC_GeoPHIRES3.main(command_line_args=[toy_code, str(inp_), str(stg_), str(out_)])
            finally:
                os.chdir(cwd0)

        def parent():
            from pathlib import Path
            from geophires_monte_carlo import GeophiresMonteCarloClient
            from geophires_monte_carlo import MonteCarloRequest
            from geophires_monte_carlo import SimulationProgram
            prog = {'hip': SimulationProgram.HIP_RA_X, 'hipold': SimulationProgram.HIP_RA}.get(c['program'], SimulationProgram.GEOPHIRES)
            if c.get('crash_restart'):
                j1 = k.procs[1]
                j1.kill_at_seam = c['crash_restart']

                def gone():
                    return j1.state == 'done' and all(w.state == 'done' for pl_ in k.pools if pl_.owner is j1 for w in pl_.workers)
                k.block(gone, what='until the crashed job is gone')
                outcome['crashed_job'] = j1.exit_kind
                if j1.exit_kind == 'killed':
                    k.probes['restart_after_driver_crash'] += 1
                    try:
                        with K._real['open'](out, 'rb') as f0:
                            left = f0.read()
                        k.probes['crashed_job_left_%s' % ('rows' if left.count(b'\n') > 1 else 'header_only' if left else 'empty_file')] += 1
                    except OSError:
                        k.probes['crashed_job_left_no_file'] += 1
                if c.get('crash_other_settings'):
                    with K._real['open'](stg, 'w') as f0:
                        f0.write(settings_text(c) + (f'MC_OUTPUT_FILE, {out}\n' if c.get('settings_out') else ''))
                    k.touch_path(stg)
                    k.probes['settings_edited_between_crash_and_restart'] += 1
                # only the run under test is analysed
                k.marks = {'notes': len(k.notes), 'pools': len(k.pools)}
            if c.get('pre_run'):
                stg0 = os.path.join(work, 'mc_settings_pre.txt')
                if c.get('pre_same_settings'):
                    # the very same settings file, untouched between the two runs (whatever is remembered about a settings file
                    # from the first run meets it again)
                    stg0 = stg
                    k.probes['earlier_run_with_the_same_settings_file'] += 1
                else:
                    with K._real['open'](stg0, 'w') as f0:
                        c0 = dict(c, iterations=c['pre_run'])
                        if c.get('pre_other_outputs'):
                            o0 = list(reversed(c['outputs']))
                            c0['outputs'] = o0[:-1] if len(o0) > 1 else o0
                        f0.write(settings_text(c0))
                if c.get('pre_other_base'):
                    with K._real['open'](inp, 'w') as f0:
                        f0.write(_other_base_text(c))
                    k.touch_path(inp)
                try:
                    launch(prog, inp, stg0, out if c.get('pre_same_out') else os.path.join(work, 'pre', 'MC_Pre.txt'))
                except BaseException as e:  # noqa: BLE001
                    if isinstance(e, (K.SimFatal, K.ProcKilled)):
                        raise
                    outcome['pre'] = f'raised {type(e).__name__}'
                if c.get('pre_other_base'):
                    with K._real['open'](inp, 'w') as f0:
                        f0.write(base_text(c))
                    k.touch_path(inp)
                    k.probes['base_input_edited_between_two_runs_of_one_process'] += 1
                # only the run under test is analysed
                k.marks = {'notes': len(k.notes), 'pools': len(k.pools)}
            try:
                if c.get('settings_out'):
                    # the documented MC_OUTPUT_FILE line of the settings file takes precedence over the command-line argument;
                    # the client does not know about it, so the driver is called directly, as `python -m geophires_monte_carlo` does
                    from geophires_monte_carlo import MC_GeoPHIRES3
                    cwd0 = os.getcwd()
                    try:
                        MC_GeoPHIRES3.main(command_line_args=[toy_code if c['program'] == 'toy' else str(prog.code_file_path), inp, stg]
                                           + ([os.path.join(work, 'cmdline_out.txt')] if c['settings_out'] == 2 else []))
                    finally:
                        os.chdir(cwd0)
                else:
                    launch(prog, inp, stg, out)
                outcome['main'] = 'ok'
            except Exception as e:  # noqa: BLE001  (called directly, the driver raises whatever it raises)
                outcome['main'] = 'raised'
                outcome['msg'] = str(e)[:300]
            outcome['cwd_after'] = os.getcwd()

        others = None
        if c.get('second_driver'):
            work_b = os.path.join(sandbox, 'project b')
            os.makedirs(work_b)
            inp_b = os.path.join(work_b, 'base_input.txt')      # same file name as the first driver's base input
            stg_b = os.path.join(work_b, 'mc_settings.txt')
            out_b = os.path.join(work_b, 'MC_Result.txt')
            cb = dict(c, base=(1 - c['base']) if c['base'] in (0, 1) else 2)
            if c.get('second_same_dir'):
                os.rmdir(work_b)
                work_b = work
                inp_b, stg_b, out_b = inp, os.path.join(work, 'mc_settings_b.txt'), os.path.join(work, 'MC_Result_b.txt')
                cb = dict(c)
            # a "#" argument resolves against the second driver's own base input
            cb['inputs'] = []
            for i_ in c['inputs']:
                i2 = dict(i_, args=list(i_['args']))
                if i2.get('hash_arg') is not None:
                    bv = _base_value(base_text(cb), i2['name'])
                    if bv is not None:
                        i2['args'][i2['hash_arg']] = bv
                cb['inputs'].append(i2)
            if inp_b != inp:
                with open(inp_b, 'w') as f:
                    f.write(base_text(cb))
            with open(stg_b, 'w') as f:
                f.write(settings_text(c))
            outcome_b = {}

            def parent_b():
                from pathlib import Path
                from geophires_monte_carlo import GeophiresMonteCarloClient
                from geophires_monte_carlo import MonteCarloRequest
                from geophires_monte_carlo import SimulationProgram
                prog = {'hip': SimulationProgram.HIP_RA_X, 'hipold': SimulationProgram.HIP_RA}.get(c['program'], SimulationProgram.GEOPHIRES)
                try:
                    launch(prog, inp_b, stg_b, out_b)
                    outcome_b['main'] = 'ok'
                except Exception as e:  # noqa: BLE001
                    outcome_b['main'] = 'raised'
                    outcome_b['msg'] = str(e)[:300]
                outcome_b['cwd_after'] = os.getcwd()
            priv_b = K.Priv(np.random.RandomState(c['np_seed_b']).get_state(), _random.Random(c['np_seed_b']).getstate(),
                            work_b, ['mc-driver-b'])
            others = [(parent_b, priv_b)]
        if c.get('crash_restart') and c.get('crash_other_settings'):
            # the settings file as it was when the crashed job started (it is put back before the run under test starts)
            with open(stg, 'w') as f:
                f.write(settings_text(_other_settings(c)) + (f'MC_OUTPUT_FILE, {out}\n' if c.get('settings_out') else ''))
        if c.get('crash_restart'):
            def crashed_job():
                from geophires_monte_carlo import SimulationProgram
                prog = {'hip': SimulationProgram.HIP_RA_X, 'hipold': SimulationProgram.HIP_RA}.get(c['program'], SimulationProgram.GEOPHIRES)
                try:
                    if c.get('settings_out'):
                        from geophires_monte_carlo import MC_GeoPHIRES3
                        MC_GeoPHIRES3.main(command_line_args=[toy_code if c['program'] == 'toy' else str(prog.code_file_path), inp, stg])
                    else:
                        launch(prog, inp, stg, out)
                except Exception:  # noqa: BLE001  (it may also fail on its own before it is killed)
                    pass
            priv_c = K.Priv(np.random.RandomState(c['np_seed'] ^ 0x5A5A).get_state(), _random.Random(c['np_seed'] ^ 0x5A5A).getstate(),
                            work, ['mc-driver'])
            others = [(crashed_job, priv_c)]
        fatal = k.run(parent, priv, others)
        tempfile.tempdir = None
        rec['fatal'] = list(fatal) if fatal else None
        rec['outcome'] = outcome
        rec['events'] = k.seq
        rec['sim_seconds'] = k.now
        rec['digest'] = k.trace_digest.hexdigest()
        rec['fault_fired'] = dict(k.fault_fired)
        rec['probes'] = dict(k.probes)
        crashed = [(p.name, p.error) for p in k.procs if p.error]
        if crashed and crashed[0][0] == 'parent':
            rec['harness_error'] = 'parent_crashed'
            rec['detail'] = crashed[0][1]
            return rec
        if fatal and fatal[0] in ('unmodelled_concurrency',):
            rec['harness_error'] = fatal[0]
            rec['detail'] = fatal[1]
            return rec
        analyse(rec, c, k, out, inp, payload, driver=k.procs[0] if c.get('second_driver') else None)
        if c.get('second_driver') and not rec.get('harness_error'):
            rec_b = {'fatal': rec['fatal'], 'outcome': outcome_b, 'fault_fired': rec['fault_fired'], 'probes': rec['probes']}
            analyse(rec_b, cb, k, out_b, inp_b, payload, driver=k.procs[1])
            for v in rec_b.get('violations') or []:
                v['detail'] = 'second driver: ' + v['detail']
                rec['violations'].append(v)
            rec['second_driver_rows'] = rec_b.get('rows')
            rec['probes'] = dict(k.probes)
            rec['rows_replayed'] = (rec.get('rows_replayed') or 0) + (rec_b.get('rows_replayed') or 0)
            if rec_b.get('lost_without_failures'):
                rec['lost_without_failures'] = True
        if payload.get('want_log'):
            rec['log'] = [list(e) for e in k.log[-payload['want_log']:]]
        rec['choices'] = list(cs.trace)
        if payload.get('labels'):
            rec['labels'] = list(cs.labels)
        return rec
    finally:
        tempfile.tempdir = None
        if _REPLAYER is not None:
            _REPLAYER.close()
            _REPLAYER = None
        shutil.rmtree(sandbox, ignore_errors=True)


def _find_rng_objects():
    import numpy as np
    import random as _random
    out = []
    seen = set()
    for m in _state.get('rng_modules', []):
        for v in list(vars(m).values()):
            if isinstance(v, (np.random.Generator, np.random.RandomState, _random.Random)) and id(v) not in seen:
                if v is getattr(np.random.mtrand, '_rand', None):
                    continue
                seen.add(id(v))
                out.append(v)
    return out


# --------------------------------------------------------------------------------------
# oracles
# --------------------------------------------------------------------------------------
STAMP_RE = re.compile(r'^ ?(Simulation Date|Simulation Time|Calculation Time): .*$', re.M)


def _canon(text):
    return STAMP_RE.sub('', text)


ROW_RE = re.compile(r'^((?:[^,()\s][^,()]*, )*)\(((?:[^:;()]+:[^:;()]+;)+)\)$')


def parse_result_file(text, c):
    """-> dict(header, rows=[(lineno, tokens, [(name, value_str)], raw)], malformed=[(lineno, raw)], stats_text={})"""
    lines = text.split('\n')
    res = {'header': lines[0] if lines else '', 'rows': [], 'malformed': [], 'stats': {}, 'stats_order': []}
    i = 1
    outputs = c['outputs']
    stat_heads = {o + ':' for o in outputs}
    while i < len(lines):
        ln = lines[i]
        if ln in stat_heads:
            break
        if ln == '' and i == len(lines) - 1:
            break
        m = ROW_RE.match(ln)
        if m:
            toks = [t for t in m.group(1).split(', ') if t != '']
            pairs = [tuple(x.split(':', 1)) for x in m.group(2).split(';') if x]
            res['rows'].append((i, toks, pairs, ln))
        else:
            res['malformed'].append((i, ln))
        i += 1
    cur_o = None
    while i < len(lines):
        ln = lines[i]
        if ln in stat_heads:
            cur_o = ln[:-1]
            res['stats'][cur_o] = {}
            res['stats_order'].append(cur_o)
        elif cur_o is not None:
            m = re.match(r'^     (minimum|maximum|median|average|mean|standard deviation): (.+)$', ln)
            if m:
                res['stats'][cur_o][m.group(1)] = m.group(2)
        i += 1
    return res


def in_support(dist, args, x):
    if not math.isfinite(x):
        return False
    if dist == 'uniform':
        return args[0] <= x < args[1] or x == args[0]
    if dist == 'triangular':
        return args[0] <= x <= args[2]
    if dist == 'lognormal':
        return x > 0
    if dist == 'binomial':
        return x == int(x) and 0 <= x <= args[0]
    return True  # normal


def cdf(dist, args, x):
    if dist == 'uniform':
        return (x - args[0]) / (args[1] - args[0])
    if dist == 'normal':
        return 0.5 * (1 + math.erf((x - args[0]) / (args[1] * math.sqrt(2))))
    if dist == 'lognormal':
        return 0.5 * (1 + math.erf((math.log(x) - args[0]) / (args[1] * math.sqrt(2))))
    if dist == 'triangular':
        l, m, r = args
        if x <= m:
            return (x - l) ** 2 / ((r - l) * (m - l))
        return 1 - (r - x) ** 2 / ((r - l) * (r - m))
    return None


def extract_output(report, label):
    """independent extractor: the unique line whose text before the first colon is exactly the label"""
    hits = []
    for ln in report.split('\n'):
        head, sep, tail = ln.partition(':')
        # (a blank after the colon is usual but not required: a value that fills its column touches the colon)
        if sep and head.strip() == label and (tail[:1] in (' ', '\t') or re.match(r'[-+.\d]', tail)):
            t = tail.strip().split()
            if t:
                hits.append(t[0])
    return hits


def analyse(rec, c, k, out_path, inp_path, payload, driver=None):
    viol = []   # dicts: property, cls, cause, detail
    rec['violations'] = viol
    marks = getattr(k, 'marks', None) or {'notes': 0, 'pools': 0}
    notes = k.notes[marks['notes']:]
    pools = k.pools[marks['pools']:]
    if driver is not None:
        # several independent drivers ran in this simulation: keep what belongs to this one (its pools, its workers, itself)
        pools = [pl_ for pl_ in pools if pl_.owner is driver]
        pids = {driver.pid} | {w.pid for pl_ in pools for w in pl_.workers}
        notes = [(kind, n) for kind, n in notes if n.get('pid') in pids]
    strict = c['mode'] == 'strict'
    fatal = rec['fatal']
    pool = pools[0] if pools else None
    tasks = [t for pl_ in pools for t in pl_.tasks]     # a driver may use several pools (e.g. a retry pass)
    tasks_by_id = {t.idx: t for t in tasks}

    def V(prop, cls, cause, detail):
        viol.append({'property': prop, 'cls': cls, 'cause': cause, 'detail': detail})

    # --- liveness -----------------------------------------------------------------
    if fatal:
        if fatal[0] in ('deadlock', 'step_cap'):
            if strict:
                V('C13', 'liveness', fatal[0], fatal[1][:200])
            else:
                rec['inconclusive'] = fatal[0]
            return
    # --- per-task facts ---------------------------------------------------------------
    sim_ok = collections.Counter()
    sim_fail = collections.Counter()
    task_ok = {}
    task_worker = {}
    lock_events = collections.defaultdict(list)
    lost_buffers = collections.defaultdict(int)
    sampled = collections.defaultdict(bytes)     # task -> bytes appended to its private input file
    iters, iters_by_file, last_iter = [], {}, {}
    enospc = set()                               # (task, private input file) whose append the injected full disk cut short
    for kind, n in notes:
        t = n.get('task')
        if kind == 'sim_end':
            (sim_ok if n['ok'] else sim_fail)[t] += 1
            it = last_iter.get(t)
            if it is not None and it['sim'] is None:
                it['sim'] = bool(n['ok'])
            else:
                it = {'task': t, 'entries': b'', 'sim': bool(n['ok'])}     # simulator call without a visible input file
                iters.append(it)
        elif kind == 'task_end':
            task_ok[t] = n['ok']
        elif kind == 'task_start':
            task_worker[t] = n['worker']
        elif kind in ('lock_acquire', 'lock_release'):
            lock_events[t].append((kind, n['ok'], n['code']))
        elif kind == 'buffer_lost':
            lost_buffers[t] += n['nbytes']
        elif kind == 'disk_full':
            enospc.add((t, n['path']))
        elif kind == 'copyfile' and t is not None and (n['src'].endswith('.out') or n['dst'].endswith('_result.txt')):
            it = last_iter.get(t)
            if it is not None:
                it['report'] = n['data']
        elif kind == 'write' and n['path'].startswith('tmp/') and t is not None:
            sampled[t] += n['data']
            # one simulated iteration = one private input file (a pool task may run several iterations, e.g. batching)
            it = iters_by_file.get((t, n['path']))
            if it is None:
                it = {'task': t, 'entries': b'', 'sim': None, 'path': n['path']}
                iters_by_file[(t, n['path'])] = it
                iters.append(it)
                last_iter[t] = it
            it['entries'] += n['data']
    n_sub = len(tasks)
    rec['tasks'] = n_sub
    broken = any(pl_.broken for pl_ in pools)
    rec['pool_broken'] = broken
    rec['pools'] = len(pools)
    n_obs = max(n_sub, len(iters))      # a pool task may carry several iterations (chunking), so count iterations seen as well

    def check_iteration_count(carried=0):
        if pool is not None and n_obs + carried < c['iterations'] and (strict or not broken):
            # (more than ITERATIONS is legal - e.g. a retry pass; fewer means requested iterations were never run)
            V('C13', 'iteration_count', 'fewer_than_requested',
              f"{n_sub} pool tasks / {len(iters)} iterations observed for ITERATIONS={c['iterations']}"
              + (f' ({carried} rows carried over from the interrupted run)' if carried else ''))
            if any(it['sim'] is False for it in iters):
                # C14 "an iteration that fails affects only its own row": other iterations were never run in a run where some
                # failed (judged at batch level: kept only if runs WITHOUT failing iterations run all of theirs)
                V('C14', 'failure_leak', 'iterations_never_run_when_another_iteration_failed',
                  f"only {n_obs} of {c['iterations']} requested iterations were run in a run where "
                  f"{sum(1 for it in iters if it['sim'] is False)} iteration(s) failed")
                viol[-1]['conditional'] = 'no_loss_without_failures'
            else:
                rec['lost_without_failures'] = True
    # an iteration is "successfully simulated" when the simulator call made for it returned normally
    ok_iters = [it for it in iters if it['sim'] is True]
    successes = [it['task'] for it in ok_iters]          # one entry per successful simulator call
    rec['successes'] = len(successes)
    rec['failed_iterations'] = sum(1 for it in iters if it['sim'] is False)
    if rec['failed_iterations']:
        k.fault_fired['iter_fail'] += rec['failed_iterations']
        rec['fault_fired'] = dict(k.fault_fired)
    workers_used = collections.Counter(task_worker.values())
    rec['workers_used'] = len(workers_used)
    rec['assignment'] = _assignment_signature(tasks, task_worker)
    # --- result file ------------------------------------------------------------------
    try:
        with K._real['open'](out_path, 'rb') as f:
            raw = f.read()
        text = raw.decode('utf-8', 'replace')
    except OSError:
        text = None
    if text is None:
        check_iteration_count()
        if successes and (strict or not broken):
            V('C13', 'lost_row', 'no_result_file', f'{len(successes)} successful iterations, no result file')
        return
    pr = parse_result_file(text, c)
    rows = pr['rows']
    rec['rows'] = len(rows)
    header_expect = ', '.join(c['outputs'] + [i['name'] for i in c['inputs']])
    if pr['header'] != header_expect:
        V('C14', 'row_malformed', 'header', f"header {pr['header']!r} != {header_expect!r}")
    # provenance of every byte of the row region
    out_norm = k.norm_path(out_path)
    torn = _provenance(raw, notes, out_norm, pr)
    for lineno, owners, ln in torn:
        V('C14', 'row_torn', 'mixed_writers', f'line {lineno} bytes from pids {sorted(owners)}: {ln[:120]!r}')
    for lineno, ln in pr['malformed']:
        if not any(lineno == t[0] for t in torn):
            V('C14', 'row_malformed', 'syntax', f'line {lineno}: {ln[:160]!r}')
    in_names = [i['name'] for i in c['inputs']]
    for lineno, toks, pairs, ln in rows:
        if [p[0] for p in pairs] != in_names:
            V('C14', 'row_malformed', 'input_names', f'line {lineno}: inputs {[p[0] for p in pairs]} != {in_names}')
            got_ = [p[0] for p in pairs]
            if len(got_) < len(in_names) and all(n_ in in_names for n_ in got_) and len(toks) == len(c['outputs']) \
                    and (strict or not broken) and not any(lineno == t[0] for t in torn):
                # a complete, untorn row of a simulated iteration that records no draw for a requested input: that iteration
                # did not draw its inputs from the requested distributions
                V('C13', 'missing_sample', 'row_lacks_requested_input',
                  f'line {lineno}: no sample recorded for {[n_ for n_ in in_names if n_ not in got_]} (row has {got_})')
        if len(toks) != len(c['outputs']):
            V('C14', 'row_malformed', 'column_count', f"line {lineno}: {len(toks)} output tokens for {len(c['outputs'])} OUTPUTs")
    # --- C13: row count ---------------------------------------------------------------
    nin_ = len(c['inputs'])

    for it in iters:
        it['key'] = iter_key(it['entries'], in_names)
    row_keys = collections.Counter(';'.join(f'{n}:{v}' for n, v in pairs) + ';' for _, _, pairs, _ in rows)
    wrote = collections.Counter()           # task -> newline-terminated lines it put into the result file itself
    worker_writes = False
    for kind, n in notes:
        if kind == 'write' and n['path'] == out_norm and n.get('task') is not None:
            worker_writes = True
            wrote[n['task']] += n['data'].count(b'\n')
    good_rows = len(rows) + len(pr['malformed'])
    # crash and restart: a row that an iteration of the interrupted job produced and that is still in the file is a row of a
    # successfully simulated iteration all the same (a driver that resumes is as good as one that starts afresh) - as long as
    # it is a sample of the distributions requested NOW, which the support and distribution checks below decide
    carried = 0
    if c.get('crash_restart') and marks['notes']:
        pre_ok = _ok_keys(k.notes[:marks['notes']], in_names)
        own_ok = collections.Counter(it['key'] for it in ok_iters)
        for key_, n_ in row_keys.items():
            more = n_ - own_ok.get(key_, 0)
            if more > 0:
                carried += min(more, pre_ok.get(key_, 0))
        if carried:
            rec['rows_carried_over_from_the_interrupted_run'] = carried
            k.probes['rows_carried_over_from_the_interrupted_run'] += carried
            rec['probes'] = dict(k.probes)
    good_rows -= carried
    check_iteration_count(carried)
    if strict and not carried and good_rows == len(successes) and not pr['malformed'] and ok_iters \
            and all(it['entries'] for it in ok_iters) and all([p_[0] for p_ in r[2]] == in_names for r in rows):
        # every row records the draws its iteration was SIMULATED with: the values the iteration's private input file gives to
        # the sampled parameters (last entry of a name) are the recorded ones
        odd = row_keys - collections.Counter(it['key'] for it in ok_iters)
        if odd:
            ex_ = sorted(odd)[0]
            sim_ = sorted(collections.Counter(it['key'] for it in ok_iters) - row_keys)[:1]
            V('C13', 'missing_sample', 'recorded_draw_is_not_what_was_simulated',
              f'{sum(odd.values())} row(s) record sampled values that no successfully simulated iteration was run with, e.g. row {ex_!r}; '
              f'simulated without a matching row: {sim_}')
    if good_rows > len(successes):
        V('C13', 'extra_row', 'count', f'{good_rows} rows for {len(successes)} successfully simulated iterations')
    elif good_rows < len(successes):
        per_task_ok = collections.Counter(successes)
        if worker_writes:
            missing = [t for t in sorted(per_task_ok) for _ in range(max(0, per_task_ok[t] - wrote.get(t, 0)))]
        else:
            need = collections.Counter()
            missing = []
            for it in ok_iters:
                need[it['key']] += 1
                if need[it['key']] > row_keys.get(it['key'], 0):
                    missing.append(it['task'])
        nlost = len(successes) - good_rows
        causes = collections.Counter()
        for t in (missing or [None] * nlost):
            causes[_loss_cause(t, lock_events, lost_buffers, k, tasks_by_id, task_ok)] += 1
        rec['lost_rows'] = dict(causes)
        # (a broken pool explains a loss only if the simulator broke it - an injected worker kill; a pool that breaks on its own,
        # e.g. because the parent cannot unpickle what a failing iteration raised, is the driver's doing)
        expl = ('lock_timeout',) + (('killed', 'pool_broken') if k.fault_fired.get('kill') else ())
        if strict or any(not cause.startswith(expl) for cause in causes):
            for cause, n in sorted(causes.items()):
                if strict or not cause.startswith(expl):
                    V('C13', 'lost_row', cause, f'{n} successfully simulated iteration(s) have no row '
                      f'({good_rows} rows for {len(successes)} successes); tasks {missing[:6]}')
        else:
            rec['explained_loss'] = dict(causes)
        unexplained = sum(n for cause, n in causes.items() if not cause.startswith(expl))
        if unexplained:
            if rec['failed_iterations']:
                # C14 "an iteration that fails affects only its own row": judged at batch level (check_mc keeps this only if
                # runs WITHOUT failing iterations lose nothing, i.e. the loss really is tied to a failure)
                V('C14', 'failure_leak', 'rows_missing_when_another_iteration_failed',
                  f"{unexplained} successfully simulated iteration(s) have no row in a run where {rec['failed_iterations']} other "
                  f'iteration(s) failed ({good_rows} rows for {len(successes)} successes)')
                viol[-1]['conditional'] = 'no_loss_without_failures'
            else:
                rec['lost_without_failures'] = True
    # --- C13: independence / support --------------------------------------------------
    cont = [j for j, i in enumerate(c['inputs']) if not i['discrete']]
    vecs = collections.Counter()
    for lineno, toks, pairs, ln in rows:
        if len(pairs) != len(c['inputs']):
            continue
        for j, i in enumerate(c['inputs']):
            try:
                x = float(pairs[j][1])
            except ValueError:
                V('C14', 'row_malformed', 'input_value', f'line {lineno}: {pairs[j]}')
                continue
            if not in_support(i['dist'], i['args'], x):
                V('C13', 'out_of_support', i['dist'], f"line {lineno}: {i['name']}={x!r} outside {i['dist']}{tuple(i['args'])}")
            elif i['dist'] in ('normal', 'lognormal') and i['args'][1] > 0 and (i['dist'] == 'normal' or x > 0):
                # a single draw more than 8 standard deviations out (p ~ 1e-15) is not a draw from the requested distribution
                z = ((x if i['dist'] == 'normal' else math.log(x)) - i['args'][0]) / i['args'][1]
                if abs(z) > 8:
                    V('C13', 'wrong_distribution', i['dist'] + '_tail',
                      f"line {lineno}: {i['name']}={x!r} is {z:.1f} standard deviations from the requested {i['dist']}{tuple(i['args'])}"
                      + (' (mean given as "#": value of the base input)' if i.get('hash_arg') is not None else ''))
        if cont:
            vecs[tuple(pairs[j][1] for j in cont)] += 1
    dups = {v: n for v, n in vecs.items() if n > 1}
    rec['distinct_vectors'] = len(vecs)
    if dups:
        ex = max(dups.items(), key=lambda kv: kv[1])
        V('C13', 'dup_sample', 'replicated_draws',
          f'{sum(dups.values())} of {sum(vecs.values())} rows carry a sampled vector that also occurs in another row '
          f'({len(vecs)} distinct); e.g. {ex[0]} x{ex[1]}; workers used {len(workers_used)}')
    # per-task view (includes failed iterations, whose samples never reach a row)
    tvecs = collections.Counter()
    if cont and len(iters) > 1:
        for it in iters:
            if (it['task'], it.get('path')) in enospc or (it['sim'] is None and it['entries'] and not it['entries'].endswith(b'\n')
                                                          and (k.fault_fired.get('short_write') or k.fault_fired.get('kill'))):
                # the private input file was torn by an injected fault - the full disk stored a prefix of the append, or the
                # worker was stopped between the two halves of a short write and never reached the simulator: what the file
                # holds is the beginning of a draw ("name, 0"), not a draw, and two such stumps agree by construction
                k.probes['iterations_whose_input_file_was_torn_by_a_fault'] += 1
                rec['probes'] = dict(k.probes)
                continue
            parts = [x.split(':', 1) for x in it['key'].split(';') if x]
            if len(parts) == len(c['inputs']) and all(len(x) == 2 for x in parts):
                tvecs[tuple(parts[j][1] for j in cont)] += 1
        tdup = sum(n for n in tvecs.values() if n > 1)
        rec['distinct_task_vectors'] = len(tvecs)
        if tdup and not dups:
            V('C13', 'dup_sample', 'replicated_draws',
              f'{tdup} of {sum(tvecs.values())} iterations drew a vector also drawn by another iteration')
    # PIT values for the pooled distribution test (thorough tier, strict runs without failures)
    if strict and not c['iter_fail']:
        # (configurations without edge distributions: on a correct tree no iteration fails there, so there is no censoring)
        pit = []
        for lineno, toks, pairs, ln in rows:
            if len(pairs) != len(c['inputs']):
                continue
            for j, i in enumerate(c['inputs']):
                if i['discrete']:
                    continue
                try:
                    u = cdf(i['dist'], i['args'], float(pairs[j][1]))
                except (ValueError, ZeroDivisionError):
                    u = None
                if u is not None:
                    pit.append((i['dist'], round(u, 6)))
        rec['pit'] = pit
    # --- C14: replay rows -------------------------------------------------------------
    nrep = payload.get('replay_rows', 3 if c['program'] == 'geo' else 6)
    if c.get('special') == 'layout_shift':
        nrep = max(nrep, 8)
    layouts = set()
    base = base_text(c)
    cand = [r for r in rows if len(r[1]) == len(c['outputs']) and [p[0] for p in r[2]] == in_names]
    if len(cand) > nrep:
        # rows whose sampled combination occurs more than once first (discrete inputs): they are where a result cached or
        # left over from another iteration would be served; then an even spread
        seen_k = collections.Counter(tuple(p_[1] for p_ in r[2]) for r in cand)
        # ... after the rows that record sampled values which no successfully simulated iteration's input file held (whatever
        # went wrong between the draw and the file - a failed write that nobody noticed - the row's outputs then belong to other
        # values)
        own_k = {it['key'] for it in ok_iters}
        odd_rows = [r for r in cand if ';'.join(f'{n_}:{v_}' for n_, v_ in r[2]) + ';' not in own_k][:max(2, nrep // 2)]
        if odd_rows:
            k.probes['rows_recording_values_no_input_file_held'] += len(odd_rows)
            rec['probes'] = dict(k.probes)
        rep_rows = odd_rows + [r for r in cand if seen_k[tuple(p_[1] for p_ in r[2])] > 1 and r not in odd_rows]
        if len(rep_rows) > nrep:
            rest_n = nrep - len(odd_rows)
            rep_rows = odd_rows + (rep_rows[len(odd_rows):][-rest_n:] if rest_n > 0 else [])
        rest = [r for r in cand if r not in rep_rows]
        need = nrep - len(rep_rows)
        step = len(rest) / need if need > 0 and rest else 0
        cand = rep_rows + ([rest[int(i * step)] for i in range(min(need, len(rest)))] if step else [])
    replayed = 0
    K.KERNEL = None
    for lineno, toks, pairs, ln in cand:
        rp = os.path.join(k.sandbox, f'replay_{lineno}.txt')
        with K._real['open'](rp, 'w') as f:
            f.write(base + ''.join(f'{n}, {v}\n' for n, v in pairs))
        try:
            old_tmp = tempfile.tempdir
            tempfile.tempdir = os.path.join(k.sandbox, 'tmp')
            report = _REPLAYER.run(c['program'], rp) if _REPLAYER is not None else reference_run(c['program'], rp)
        except Exception as e:  # noqa: BLE001
            V('C14', 'row_not_reproducible', 'reference_failed', f'line {lineno}: re-simulation raised {type(e).__name__}: {str(e)[:120]}')
            continue
        finally:
            tempfile.tempdir = old_tmp
        replayed += 1
        layouts.add(len(report.split('\n')))
        # C20 "runs embedded in the Monte-Carlo driver produce the same case report": the report the iteration copied from
        # its client vs the report of base input + recorded sampled values run through the client on its own
        rk = ';'.join(f'{n}:{v}' for n, v in pairs) + ';'
        emb = next((it.get('report') for it in ok_iters if it.get('key') == rk and it.get('report') is not None), None)
        if emb is not None:
            rec['embedded_reports_compared'] = rec.get('embedded_reports_compared', 0) + 1
            a_ = _canon(emb.decode('utf-8', 'replace'))
            b_ = _canon(report)
            if a_ != b_:
                i_ = next((j for j in range(min(len(a_), len(b_))) if a_[j] != b_[j]), min(len(a_), len(b_)))
                V('C20', 'entrypoint_report_diff', 'mc_embedded',
                  f'line {lineno}: the report produced inside the Monte-Carlo iteration differs from the client run of the same input at '
                  f'char {i_}: {a_[max(0, i_ - 40):i_ + 40]!r} vs {b_[max(0, i_ - 40):i_ + 40]!r}')
        for o, tok in zip(c['outputs'], toks):
            hits = extract_output(report, o)
            if len(hits) == 0:
                # the re-simulated report does not print this output at all (some lines are conditional): the row must say so
                # with the placeholder, never with a value, and never by dropping the column (column_count above)
                if tok.lower() != 'nan':
                    V('C14', 'row_not_reproducible', 'value_for_absent_output',
                      f'line {lineno}: {o} row={tok!r} but re-simulating the recorded samples prints no such line')
                else:
                    k.probes['output_absent_in_iteration_report'] += 1
                    rec['probes'] = dict(k.probes)
                continue
            if len(hits) != 1:
                rec.setdefault('skipped_outputs', []).append(o)
                continue
            if hits[0] != tok and hits[0].replace(',', '') != tok.replace(',', ''):
                V('C14', 'row_not_reproducible', 'value', f'line {lineno}: {o} row={tok!r} re-simulated={hits[0]!r}')
    rec['rows_replayed'] = replayed
    if len(layouts) > 1:
        k.probes['report_layout_differs_between_rows_of_one_run'] += 1
        rec['probes'] = dict(k.probes)
    # --- C14: statistics --------------------------------------------------------------
    if rec['outcome'].get('main') == 'ok':
        _check_stats(rec, c, pr, out_path, V)
    elif rows and not fatal and 'No MC results generated' in (rec['outcome'].get('msg') or '') and not pr['malformed'] \
            and any('-9999.0' not in r[3] and len(r[1]) == len(c['outputs']) for r in rows) and (strict or not broken):
        # the driver claims that no iteration produced a result while the file it wrote holds well-formed rows that count
        V('C14', 'stats_missing', 'no_results_claimed_although_rows_exist',
          f"the driver ended with 'No MC results generated' although the result file holds {len(rows)} well-formed rows")
    elif rows and not fatal:
        # the driver raised although rows exist (e.g. numpy's histogram of a constant column of magnitude >= 2**52):
        # no statistics are reported, so there is nothing for C14 to compare; counted, not judged
        k.probes['driver_raised_with_rows'] += 1
        rec['probes'] = dict(k.probes)
    if rec['outcome'].get('main') == 'ok' and os.path.realpath(rec['outcome'].get('cwd_after', '')) != os.path.realpath(os.path.dirname(inp_path)):
        rec['cwd_changed'] = rec['outcome'].get('cwd_after')
    rec['interleaving'] = _interleaving_signature(notes, k.norm_path(out_path))
    rec['contended'] = bool(k.probes.get('acquire_code_0', 0) + k.probes.get('acquire_code_1', 0) > 1 and len(workers_used) > 1) \
        or len(workers_used) > 1


def _loss_cause(t, lock_events, lost_buffers, k, tasks, task_ok):
    if any(pool.broken for pool in k.pools) and k.fault_fired.get('kill'):
        # an injected SIGKILL broke the pool: CPython fails every pending future and terminates the other workers,
        # the driver may raise out of submit()/result(); whatever was not yet appended is lost with it
        return 'pool_broken'
    if t is None:
        return 'unknown'
    ev = lock_events.get(t, [])
    task = tasks.get(t)
    acq = [e for e in ev if e[0] == 'lock_acquire']
    rel = [e for e in ev if e[0] == 'lock_release']
    if acq and not acq[-1][1]:
        return f'lock_timeout(code={acq[-1][2]})'
    if rel and not rel[-1][1] and rel[-1][2] == 4:
        return 'release_denied_then_exit_discards_buffer' if lost_buffers.get(t) else 'release_denied'
    try:
        if task is not None and task.future.done() and not task.future.cancelled() and \
                type(task.future.exception(0)).__name__ == 'BrokenProcessPool':
            return 'pool_broken'
    except Exception:  # noqa: BLE001
        pass
    if t not in task_ok:
        # the iteration never finished: its worker was killed / terminated with the broken pool
        for p in k.procs:
            if p.exit_kind in ('killed', 'terminated') and p.task == t:
                return 'killed'
        if task is not None and task.outcome and task.outcome[0] == 'broken':
            return 'pool_broken'
    if lost_buffers.get(t):
        return 'buffer_discarded_at_exit'
    if task_ok.get(t) is False:
        return 'raised_after_simulation'
    return 'unknown'


def _provenance(raw, notes, out_norm, pr):
    """lines of the row region whose bytes were written by more than one process"""
    chunks = [(n['pid'], n['data']) for kind, n in notes if kind == 'write' and n['path'] == out_norm]
    cat = b''.join(d for _, d in chunks)
    if raw != cat:
        # some writer did not append (truncation, pass-through handle): provenance not available,
        # the format, row-count and replay checks still apply
        return []
    owners = []
    for pid, d in chunks:
        owners.extend([pid] * len(d))
    torn = []
    pos = 0
    lines = raw.split(b'\n')
    nrow_region = 1 + len(pr['rows']) + len(pr['malformed'])
    for i, ln in enumerate(lines):
        seg = owners[pos:pos + len(ln)]
        pos += len(ln) + 1
        if i == 0 or i >= nrow_region:
            continue
        s = set(seg)
        if len(s) > 1:
            torn.append((i, s, ln.decode('utf-8', 'replace')))
    return torn


def _check_stats(rec, c, pr, out_path, V):
    outputs = c['outputs']
    rows = [r for r in pr['rows'] if '-9999.0' not in r[3] and len(r[3].strip()) > 10]
    jpath = os.path.splitext(out_path)[0] + '.json'       # == pathlib's with_suffix('.json'): the last suffix is replaced, a name without one gets it
    try:
        with K._real['open'](jpath) as f:
            js = json.load(f)
    except (OSError, ValueError) as e:
        V('C14', 'json_text_mismatch', 'json_missing', f'{type(e).__name__}: {e}')
        return
    cols = []
    ok = all(len(r[1]) == len(outputs) for r in rows)
    if ok and rows:
        for j in range(len(outputs)):
            try:
                cols.append([float(r[1][j]) for r in rows])
            except ValueError:
                # a cell that is not a number ('N/A'): nothing is demanded of what the summary says about THIS output (or of
                # whether the driver refuses to summarise at all), the other outputs are still summarised over all rows
                cols.append(None)
                rec['outputs_with_non_numeric_cells'] = rec.get('outputs_with_non_numeric_cells', 0) + 1
    # an OUTPUT whose column holds no value at all may be summarised (as nan) or left out of the summary: both describe the rows
    optional = {o for j, o in enumerate(outputs) if cols and (cols[j] is None or all(x != x for x in cols[j]))}
    need = [o for o in outputs if o not in optional]
    have = [o for o in js.keys() if o not in optional]
    if have != need and set(have) != set(need) or any(o not in outputs for o in js.keys()):
        V('C14', 'json_text_mismatch', 'json_keys', f'{list(js.keys())} != {outputs}')
    if not cols:
        return
    for j, o in enumerate(outputs):
        if cols[j] is None or (o in optional and o not in js and o not in pr['stats']):
            continue
        has_nan = any(x != x for x in cols[j])
        xs = sorted(x for x in cols[j] if x == x)       # the summary's statistics ignore missing values ('nan')...
        n = len(xs)
        if n == 0:
            want = dict.fromkeys(('minimum', 'maximum', 'median', 'average', 'mean', 'standard deviation'), float('nan'))
        else:
            mean = math.fsum(xs) / n
            med = xs[n // 2] if n % 2 else (xs[n // 2 - 1] + xs[n // 2]) / 2
            std = math.sqrt(math.fsum((x - mean) ** 2 for x in xs) / n)
            want = {'minimum': xs[0], 'maximum': xs[-1], 'median': med, 'average': float('nan') if has_nan else mean,   # ...except 'average'
                    'mean': mean, 'standard deviation': std}
        got = js.get(o)
        if not isinstance(got, dict):
            V('C14', 'stats_mismatch', 'json_entry', f'{o}: {got!r}')
            continue
        txt = pr['stats'].get(o, {})
        for sname, w in want.items():
            g = got.get(sname)
            scale = max(abs(w) if w == w else 0.0, abs(xs[0]) if xs else 0.0, abs(xs[-1]) if xs else 0.0, 1e-300)
            both_nan = isinstance(g, float) and g != g and w != w
            if not both_nan and (not isinstance(g, (int, float)) or not (abs(g - w) <= 1e-9 * scale)):
                V('C14', 'stats_mismatch', sname, f'{o}: {sname} json={g!r} recomputed={w!r} from {n} rows')
            t = txt.get(sname)
            if t is None:
                V('C14', 'json_text_mismatch', 'text_missing', f'{o}: no {sname} line in the text summary')
            elif isinstance(g, (int, float)) and t != f'{g:,.2f}':
                V('C14', 'json_text_mismatch', sname, f'{o}: {sname} text={t!r} json={g!r}')
    if [o for o in pr['stats_order'] if o not in optional] != need:
        V('C14', 'json_text_mismatch', 'text_order', f"{pr['stats_order']} != {outputs}")


def _assignment_signature(tasks, task_worker):
    ren = {}
    sig = []
    for t in tasks:
        w = task_worker.get(t.idx)
        if w is None:
            sig.append('-')
            continue
        if w not in ren:
            ren[w] = len(ren)
        sig.append(str(ren[w]))
    return ','.join(sig)


def _interleaving_signature(notes, out_norm):
    ren = {}
    h = hashlib.sha256()
    n = 0
    for kind, d in notes:
        if kind in ('task_start', 'task_end', 'lock_acquire', 'lock_release', 'lock_read') or \
                (kind == 'write' and d.get('path') == out_norm):
            pid = d['pid']
            if pid not in ren:
                ren[pid] = len(ren)
            h.update(f"{ren[pid]}:{kind}:{d.get('code', '')}:{d.get('holder', '') != 'free'};".encode())
            n += 1
    return h.hexdigest()[:16] + f'/{n}'
