"""Process farm: N single-threaded *template* processes, each of which imports the repository once
(with the seam shims installed first) and then forks one short-lived child per simulated run.

A run therefore never sees state left behind by a previous run, and "replay this seed alone in a fresh
process" reproduces it exactly.  Wall-clock limits are enforced from outside the child (SIGKILL);
a timeout or a crash is reported as a harness error, never as a pass and never as a violation.
"""
import os
import pickle
import select
import signal
import struct
import sys
import time
import traceback


def _send(fd, obj):
    b = pickle.dumps(obj, protocol=4)
    b = struct.pack('<Q', len(b)) + b
    mv = memoryview(b)
    while mv:
        n = os.write(fd, mv)
        mv = mv[n:]


def _recv_exact(fd, n):
    chunks = []
    while n:
        c = os.read(fd, min(n, 1 << 20))
        if not c:
            raise EOFError
        chunks.append(c)
        n -= len(c)
    return b''.join(chunks)


def _recv(fd):
    (n,) = struct.unpack('<Q', _recv_exact(fd, 8))
    return pickle.loads(_recv_exact(fd, n))


def run_in_child(fn, payload, timeout):
    """fork; run fn(payload) in the child; return its result or a harness-error record"""
    r, w = os.pipe()
    sys.stdout.flush()
    sys.stderr.flush()
    pid = os.fork()
    if pid == 0:
        code = 0
        try:
            os.close(r)
            # (no faulthandler.dump_traceback_later here: re-arming it in a forked child of a process that had it armed
            # waits forever for a watchdog thread that does not exist after fork; the parent enforces the limit)
            try:
                res = fn(payload)
            except BaseException as e:  # noqa: BLE001
                res = {'harness_error': 'exception', 'detail': ''.join(traceback.format_exception(type(e), e, e.__traceback__))[-6000:]}
            _send(w, res)
        except BaseException:  # noqa: BLE001
            code = 3
        finally:
            os._exit(code)
    os.close(w)
    deadline = time.monotonic() + timeout
    res = None
    try:
        while True:
            left = deadline - time.monotonic()
            if left <= 0:
                break
            rd, _, _ = select.select([r], [], [], min(left, 1.0))
            if rd:
                try:
                    res = _recv(r)
                except EOFError:
                    res = None
                break
    finally:
        os.close(r)
    if res is None:
        try:
            os.kill(pid, signal.SIGKILL)
        except ProcessLookupError:
            pass
        _, status = os.waitpid(pid, 0)
        if time.monotonic() >= deadline:
            return {'harness_error': 'timeout', 'detail': f'run exceeded {timeout}s wall'}
        return {'harness_error': 'child_died', 'detail': f'wait status {status}'}
    try:
        os.kill(pid, signal.SIGKILL)   # the child has nothing left to do; do not wait for thread teardown
    except ProcessLookupError:
        pass
    os.waitpid(pid, 0)
    return res


class Farm:
    """jobs template processes; map(payloads) yields (index, record) as runs finish"""

    def __init__(self, jobs, init_fn, run_fn, env=None, post_fn=None):
        self.jobs = jobs
        self.templates = []
        for j in range(jobs):
            c_r, c_w = os.pipe()   # commands parent -> template
            r_r, r_w = os.pipe()   # results template -> parent
            sys.stdout.flush()
            sys.stderr.flush()
            pid = os.fork()
            if pid == 0:
                try:
                    os.close(c_w)
                    os.close(r_r)
                    for t in self.templates:
                        os.close(t['cw'])
                        os.close(t['rr'])
                    if env:
                        os.environ.update(env)
                    try:
                        init_fn(j)
                        _send(r_w, ('ready', None))
                    except BaseException as e:  # noqa: BLE001
                        _send(r_w, ('init_failed', ''.join(traceback.format_exception(type(e), e, e.__traceback__))[-6000:]))
                        os._exit(4)
                    while True:
                        try:
                            msg = _recv(c_r)
                        except EOFError:
                            break
                        if msg is None:
                            break
                        idx, payload, timeout = msg
                        rec = run_in_child(run_fn, payload, timeout)
                        if post_fn is not None and isinstance(rec, dict) and not rec.get('harness_error'):
                            # (executed in the template itself: a process that has imported everything and run nothing)
                            try:
                                rec = post_fn(rec)
                            except BaseException as e:  # noqa: BLE001
                                rec = {'harness_error': 'post_run_exception',
                                       'detail': ''.join(traceback.format_exception(type(e), e, e.__traceback__))[-6000:]}
                        _send(r_w, ('result', (idx, rec)))
                finally:
                    os._exit(0)
            os.close(c_r)
            os.close(r_w)
            self.templates.append({'pid': pid, 'cw': c_w, 'rr': r_r, 'busy': None})
        for t in self.templates:
            kind, detail = _recv(t['rr'])
            if kind != 'ready':
                self.close()
                raise RuntimeError(f'template init failed:\n{detail}')

    def map(self, payloads, timeout, deadline=None):
        """payloads: iterable; yields (idx, payload, record).  Stops handing out work after `deadline`
        (time.monotonic value) but always collects what is in flight."""
        it = iter(enumerate(payloads))
        inflight = 0
        exhausted = False

        def feed(t):
            nonlocal inflight, exhausted
            if exhausted or (deadline is not None and time.monotonic() >= deadline):
                exhausted = True
                return
            try:
                idx, pl = next(it)
            except StopIteration:
                exhausted = True
                return
            _send(t['cw'], (idx, pl, timeout))
            t['busy'] = (idx, pl)
            inflight += 1

        for t in self.templates:
            feed(t)
        while inflight:
            rd, _, _ = select.select([t['rr'] for t in self.templates if t['busy'] is not None], [], [], 5.0)
            for fd in rd:
                t = next(x for x in self.templates if x['rr'] == fd)
                try:
                    kind, body = _recv(fd)
                except EOFError:
                    idx, pl = t['busy']
                    t['busy'] = None
                    inflight -= 1
                    yield idx, pl, {'harness_error': 'template_died', 'detail': ''}
                    continue
                idx, rec = body
                _, pl = t['busy']
                t['busy'] = None
                inflight -= 1
                feed(t)
                yield idx, pl, rec

    def close(self):
        for t in self.templates:
            try:
                _send(t['cw'], None)
            except OSError:
                pass
            for fd in (t['cw'], t['rr']):
                try:
                    os.close(fd)
                except OSError:
                    pass
        for t in self.templates:
            try:
                os.waitpid(t['pid'], 0)
            except ChildProcessError:
                pass
        self.templates = []
