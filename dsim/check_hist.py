"""C08 / C10 / C20: seeded search over histories of requests against one host process (engine histsim),
plus - for C20 - an enumerated matrix of real `python -m geophires_x` subprocess runs."""
import collections
import json
import os
import shutil
import subprocess
import sys
import tempfile
import time

from . import driver as D
from . import histsim

COMPONENTS = {
    'real': ['geophires_x_client.GeophiresXClient (reused instances, caching on/off)', 'geophires_x_client.GeophiresInputParameters',
             'geophires_x_client.GeophiresXResult (parser, as_csv)', 'geophires_x.__main__ (in-process via runpy, and as real subprocess in the C20 matrix)',
             'geophires_x.GEOPHIRESv3.main + Model + all reservoir/wellbore/plant/economics modules', 'hip_ra_x.HipRaXClient + hip_ra_x',
             'geophires_monte_carlo client (small embedded runs on the simulated pool)',
             'the JSON writer at the end of GEOPHIRESv3.main (read back and compared with the report and with the pristine run)'],
    'modelled': ['wall clock (simulated, with injected jumps)', 'OS entropy / uuid1 / uuid4', 'file seam: open/stat/rename/unlink/fsync and buffered writes '
                 '(dsim.kernel.SimFile) with injected ENOSPC/EIO/EACCES/ENOENT and cancellation (KeyboardInterrupt) at a chosen seam event',
                 'iteration order of the sets used by the result parser (SimSet: every pop order)', 'caller cwd / sys.argv / directory tree'],
    'stubbed': ['stdout/stderr', 'logging.conf FileHandler target (all_messages_conf.log -> /dev/null)', 'matplotlib figure rendering in the embedded Monte-Carlo run'],
}

ASSUMPTIONS = [
    'oracle = the same request content run alone through the real client in a child forked from an import-only reference server that was '
    "exec'ed under ANOTHER PYTHONHASHSEED than the history's interpreter (memoised per content for the duration of one check invocation); "
    'equality is exact on the report text minus the three stamp lines, on the parsed result and on the JSON written next to the report; a '
    "difference is re-judged against the same content run alone under the history's own hash seed (fork of the pristine template) to tell "
    'hash-seed dependence from history dependence',
    'JSON-vs-report: only scalar numeric JSON entries whose display name (or name) labels exactly one report line printed in the unit the '
    'entry states are compared (about a quarter of the entries); the investment tax credit is printed negated by convention',
    'request families are the offline-runnable example inputs plus two synthetic ones, with parameters moved on a small discrete grid; '
    'input coverage is not what this technique provides',
    'one history runs in one child forked from the template; nothing survives between histories',
    'sampling, not enumeration (except the C20 subprocess matrix and set orders of <=3 matching lines)',
]

TIERS = {
    # (quick is bounded by a number of histories - about 70 s on 16 idle cores - and only capped by wall time)
    'quick': (220.0, 700, 240.0, 24),
    'thorough': (1100.0, 100000, 600.0, 200),
}

PROP_CLASSES = {
    'C08': {'ambient_cwd', 'ambient_argv', 'history_dependent_result', 'stale_result', 'clock_dependent_result',
            'hashseed_dependent_result', 'failure_class'},
    'C10': {'order_dependent_parse', 'parse_mismatch', 'csv_mismatch', 'parse_error'},
    'C20': {'entrypoint_report_diff', 'wrong_output_path', 'missing_json', 'stray_file', 'exit_status', 'report_written_on_failure'},
}


def _scratch_root():
    from . import kernel as K_
    return K_.scratch_root()


def main(prop, tier):
    t0 = time.monotonic()
    budget, max_runs, per_run, det_pairs = TIERS[tier]
    if os.environ.get('VERIF_BUDGET'):
        budget = float(os.environ['VERIF_BUDGET'])
    base = D.base_seed()
    findings = D.load_findings()
    refdir = tempfile.mkdtemp(prefix='dsim-ref-', dir=_scratch_root())
    os.environ['DSIM_REFDIR'] = refdir
    batch = None
    try:
        extra = {}
        matrix_viols = []
        if prop == 'C20':
            matrix_viols, extra['subprocess_matrix'] = cli_matrix(tier)
        mc_viols = []
        if prop == 'C20':
            mc_viols, extra['monte_carlo_embedded'] = mc_embedded(tier, base)
        batch = D.Batch(histsim, prop, tier).open()
        tally = D.Tally()
        digests, rdigests, walls = {}, {}, {}
        opseqs, triples = set(), set()
        samples = []
        viols = []
        evaluations = 0
        sim_seconds = 0.0
        force = None
        if prop == 'C20':
            force = None
        payloads = ({'seed': D.run_seed(base, i), 'tier': tier, 'parse_orders': 4 if tier == 'quick' else 16} for i in range(max_runs))
        t_explore = time.monotonic()
        if prop == 'C20':
            budget = max(30.0, budget - 15.0)     # the enumerated phases above have their own (small) budgets
        for idx, pl, rec in batch.run(payloads, per_run, deadline=t_explore + budget):
            if rec.get('harness_error'):
                continue
            evaluations += 1
            h = rec['history']
            tally.add('hist_faulty' if h['faulty'] else 'hist_fault_free')
            tally.merge('fault_', rec.get('fault_fired'))
            tally.merge('probe_', rec.get('probes'))
            tally.merge('parse_', rec.get('parse_stats'))
            tally.merge('ref_', rec.get('stats'))
            tally.add('ops', rec.get('ops_done') or 0)
            tally.add('reports', rec.get('reports') or 0)
            tally.add('events', rec.get('events') or 0)
            for o in rec.get('op_kinds') or []:
                tally.add('op_' + o)
            sim_seconds += rec.get('sim_seconds') or 0.0
            digests[pl['seed']] = rec.get('digest')
            rdigests[pl['seed']] = rec.get('result_digest')
            walls[pl['seed']] = rec.get('wall_s') or 0.0
            sig = ','.join(rec.get('op_kinds') or [])
            if len(rec.get('op_kinds') or []) >= 2:
                opseqs.add(sig)
            for p_ in (rec.get('probes') or {}):
                if p_.startswith('fault_') and '_at_' in p_:
                    triples.add(p_)
            if len(samples) < 3 and len(rec.get('op_kinds') or []) >= 4:
                samples.append({'seed': pl['seed'], 'start_cwd': h['start_cwd'], 'faulty': h['faulty'],
                                'ops': [_short(o) for o in h['ops']], 'events': rec.get('events'), 'digest': rec.get('digest'),
                                'result_digest': rec.get('result_digest'), 'fault_fired': rec.get('fault_fired')})
            for v in rec.get('violations') or []:
                if v['property'] == prop:
                    viols.append((pl, rec, v))
        explore_wall = time.monotonic() - t_explore
        # ---- determinism + hash-seed independence ------------------------------------------
        det = {'pairs': 0, 'mismatches': 0}
        fastish = sorted(s for s in digests if walls.get(s, 0.0) < (4.0 if tier == 'quick' else 30.0))
        seeds = fastish[::max(1, len(fastish) // max(1, det_pairs))][:det_pairs]
        phase_t = {'explore': round(explore_wall, 1)}
        for idx, pl, rec in batch.run(({'seed': s, 'tier': tier, 'parse_orders': 4 if tier == 'quick' else 16} for s in reversed(seeds)), per_run):
            if rec.get('harness_error'):
                continue
            det['pairs'] += 1
            if rec.get('digest') != digests[pl['seed']]:
                det['mismatches'] += 1
                batch.harness_errors.append((pl['seed'], 'nondeterminism', f"digest {rec.get('digest')} != {digests[pl['seed']]}"))
        batch.close()
        hs_list = ['12345'] if tier == 'quick' else ['1', '12345', '4242']
        hs_seeds = seeds[:8 if tier == 'quick' else 64]
        det['hash_seeds'] = hs_list
        det['hashseed_pairs'] = 0
        det['hashseed_digest_mismatches'] = 0
        for hs in hs_list:
            got = _fresh(hs_seeds, tier, hs, batch)
            for s in hs_seeds:
                g = got.get(str(s))
                if g is None:
                    continue
                det['hashseed_pairs'] += 1
                if g[0] != digests[s]:
                    det['hashseed_digest_mismatches'] += 1
                    batch.harness_errors.append((s, 'nondeterminism', f'event log differs under PYTHONHASHSEED={hs}'))
                if g[1] != rdigests[s] and prop == 'C08':
                    viols.append(({'seed': s, 'tier': tier, 'hashseed': hs}, {'choices': None, 'config': None},
                                  {'property': 'C08', 'cls': 'hashseed_dependent_result', 'cause': f'PYTHONHASHSEED={hs}',
                                   'detail': f'history seed {s}: results differ between PYTHONHASHSEED={os.environ.get("PYTHONHASHSEED")} and {hs}'}))
        # ---- violations ---------------------------------------------------------------------
        exit_code = 0
        hist_harness = []
        known_seen = collections.OrderedDict()
        new = []
        for pl, rec, v in viols:
            f = D.match_finding(v, findings)
            if f is not None:
                known_seen.setdefault(f['key'], (f, v, pl))
            else:
                new.append((pl, rec, v))
        mnew = []
        for pl, rec, v in mc_viols:
            f = D.match_finding(v, findings)
            if f is not None:
                known_seen.setdefault(f['key'], (f, v, pl))
            else:
                v = dict(v, case={'id': f"mc-{pl['seed']}", 'seed': pl['seed'], 'engine': 'mcsim', 'force': pl.get('force')}, _pl=pl, _rec=rec)
                mnew.append(v)
        for v in matrix_viols:
            f = D.match_finding(v, findings)
            if f is not None:
                known_seen.setdefault(f['key'], (f, v, {'seed': 'matrix'}))
            else:
                mnew.append(v)
        for key, (f, v, pl) in known_seen.items():
            print(f"KNOWN-FINDING: property={prop} {f['key']}: {f.get('summary', v['detail'])} (e.g. seed {pl.get('seed')})")
        reported = set()
        for v in mnew:
            sig = (v['cls'], v['cause'])
            if sig in reported:
                continue
            reported.add(sig)
            if v['case'].get('engine') == 'mcsim':
                # a simulated Monte-Carlo run: an ordinary replay file of the mcsim engine
                pl_, rec_ = v['_pl'], v['_rec']
                path = D.write_replay(prop, 'mcsim', dict(pl_, want_log=200), list(rec_.get('choices') or []), rec_, v)
                ok, out = D.confirm_replay(path)
                if not ok:
                    hist_harness.append((pl_['seed'], 'replay_not_reproduced', out[-1500:]))
                    continue
                print(f'VIOLATION property={prop} replay={path}')
                print(f"  {v['cls']}/{v['cause']}: {v['detail']}")
                exit_code = 1
                continue
            path = os.path.join(D.VERIF, 'replays', f"{prop}-matrix-{v['case']['id']}.json")
            os.makedirs(os.path.dirname(path), exist_ok=True)
            with open(path, 'w') as fh:
                json.dump({'property': prop, 'engine': 'cli_matrix', 'case': v['case'], 'expected': {'cls': v['cls'], 'cause': v['cause']},
                           'detail': v['detail'], 'replay_cmd': f'./check replay {path}'}, fh, indent=1)
            print(f'VIOLATION property={prop} replay={path}')
            print(f"  {v['cls']}/{v['cause']}: {v['detail']}")
            exit_code = 1
        if new:
            batch2 = D.Batch(histsim, prop, tier).open()
            try:
                for pl, rec, v in new:
                    sig = (v['cls'], v['cause'])
                    if sig in reported:
                        continue
                    reported.add(sig)
                    if pl.get('hashseed'):
                        path = os.path.join(D.VERIF, 'replays', f"{prop}-hashseed-{pl['seed']}.json")
                        os.makedirs(os.path.dirname(path), exist_ok=True)
                        with open(path, 'w') as fh:
                            json.dump({'property': prop, 'engine': 'histsim', 'pooled': True, 'seed': pl['seed'], 'tier': tier,
                                       'expected': {'cls': v['cls'], 'cause': v['cause']}, 'detail': v['detail'],
                                       'replay_cmd': f"PYTHONHASHSEED={pl['hashseed']} ./check digests histsim {tier} {pl['seed']}"}, fh, indent=1)
                        print(f'VIOLATION property={prop} replay={path}')
                        print(f"  {v['cls']}/{v['cause']}: {v['detail']}")
                        exit_code = 1
                        continue
                    payload = dict(pl, want_log=200)
                    if len(reported) <= 2:
                        choices, srec, used = D.shrink(batch2, payload, rec, v, timeout=per_run)
                    else:
                        choices, srec, used = list(rec['choices']), rec, 0
                    final = None
                    for _, _, r in batch2.run([dict(payload, choices=choices)], per_run):
                        final = r
                    if not final or not D.same_violation(final, v):
                        choices = list(rec['choices'])
                        for _, _, r in batch2.run([dict(payload, choices=choices)], per_run):
                            final = r
                    path = D.write_replay(prop, 'histsim', payload, choices, final, v)
                    ok, out = D.confirm_replay(path)
                    if not ok:
                        batch.harness_errors.append((pl['seed'], 'replay_not_reproduced', out[-1500:]))
                        continue
                    print(f'VIOLATION property={prop} replay={path}')
                    print(f"  {v['cls']}/{v['cause']}: {v['detail']}")
                    print(f"  seed={pl['seed']} choices {len(rec['choices'])} -> {len(choices)} after {used} shrink replays; "
                          f"ops: {[_short(o) for i_, o in enumerate((final.get('history') or {}).get('ops', [])) if i_ not in set(payload.get('skip_ops') or [])]}")
                    exit_code = 1
            finally:
                batch2.close()
        wall = time.monotonic() - t0
        coverage = {
            'evaluations': evaluations,
            'distinct_nontrivial': len(opseqs),
            'rule': 'one evaluation = one history (2-8 operations: runs through 5 entry points and 3 reused client instances, input rewrites/deletes, '
                    'caller chdir/argv changes, armed file-seam faults, cancellation, clock jumps, embedded Monte-Carlo) executed in a child forked from '
                    'an import-only template; distinct = distinct operation-kind sequences (entry point included); non-trivial = at least two operations',
            'samples': samples,
            'seeds': {'base': base, 'first': D.run_seed(base, 0), 'count': evaluations},
            'runs_per_hour': int(evaluations / max(explore_wall, 1e-9) * 3600),
            'simulated_seconds': round(sim_seconds, 3),
            'operations': tally.c['ops'], 'seam_events': tally.c['events'], 'reports_compared_with_pristine_reference': tally.c['reports'],
            'fault_free_histories': tally.c['hist_fault_free'], 'faulty_histories': tally.c['hist_faulty'],
            'operation_mix': tally.sub('op_'),
            'fault_fired': tally.sub('fault_'),
            'fault_sites': sorted(triples),
            'probes': tally.sub('probe_'),
            'parser': tally.sub('parse_'),
            'reference_cache': tally.sub('ref_'),
            'reference_hash_seed': histsim.other_hash_seed(), 'history_hash_seed': os.environ.get('PYTHONHASHSEED'),
            'determinism': det,
            'history_wall_s': {'max': max(walls.values()) if walls else 0, 'mean': round(sum(walls.values()) / max(1, len(walls)), 3)},
            'components': COMPONENTS,
            'known_findings_seen': list(known_seen),
            'harness_errors': len(batch.harness_errors),
        }
        coverage.update(extra)
        D.write_evidence(prop, tier, base, coverage, ASSUMPTIONS, wall, 0 if exit_code == 0 else len(reported))
        print(f'{prop} {tier}: {evaluations} histories, {tally.c["ops"]} operations, {len(opseqs)} distinct op sequences, '
              f'{tally.c["reports"]} results compared, faults {tally.sub("fault_")}, determinism {det}, {wall:.0f}s')
        batch.harness_errors.extend(hist_harness)
        if batch.harness_errors:
            for s, kind, detail in batch.harness_errors[:5]:
                print(f'HARNESS-ERROR {kind} seed={s}: {detail[-1200:]}')
            return 2
        if evaluations == 0:
            print('HARNESS-ERROR no history completed')
            return 2
        return exit_code
    finally:
        if batch is not None:
            batch.close()
        shutil.rmtree(refdir, ignore_errors=True)


def _short(o):
    if o['op'] == 'run':
        return f"run:{o['entry']}(slot{o['slot']},client{o['client']},out={o['out']}{',reuse' if o.get('reuse') else ''})"
    if o['op'] == 'write':
        r = o['req']
        return f"write(slot{o['slot']},t{r['template']},{r['tweaks']},{r['poison']})"
    if o['op'] == 'fault':
        return f"arm({o['kind']}@+{o['at']})"
    return o['op'] + ':' + ','.join(f'{k}={v}' for k, v in o.items() if k != 'op')


def _fresh(seeds, tier, hashseed, batch):
    if not seeds:
        return {}
    env = dict(os.environ, PYTHONHASHSEED=hashseed, DSIM_REEXEC='1', VERIF_JOBS=str(min(8, D.jobs())))
    try:
        r = subprocess.run([sys.executable, os.path.join(D.VERIF, 'check'), 'digests', 'histsim', tier, ','.join(map(str, seeds))],
                           capture_output=True, text=True, timeout=1200, env=env, cwd=D.VERIF)
        return json.loads(r.stdout.strip().splitlines()[-1])
    except Exception as e:  # noqa: BLE001
        batch.harness_errors.append((0, 'fresh_interpreter_failed', str(e)[:500]))
        return {}


# --------------------------------------------------------------------------------------
# C20: enumerated matrix of real subprocess CLI runs
# --------------------------------------------------------------------------------------
def cli_matrix(tier):
    """(entry = real `python -m geophires_x`) x output form x cwd kind x {ok, rejected input, failure in Calculate, missing input}.
    Exhaustive over that small product; report text is compared with an in-process client run of the same content."""
    from concurrent.futures import ThreadPoolExecutor
    from . import workloads as WL
    repo_src = os.path.join(os.environ.get('VERIF_REPO', '/repo'), 'src')
    from . import kernel as K
    root = K.make_sandbox('climatrix', 0)   # fixed name (contains the letters of the short output names on purpose)
    viols = []
    cases = []
    try:
        reqs = {
            'ok': WL.GEO_BASE,
            'reject': WL.GEO_BASE + 'Utilization Factor, 1.5\n',
            'calc_fail': WL.GEO_BASE + 'Gradient 1, 2\nReservoir Depth, 0.5\n',
            'bare_sys_exit': WL.GEO_BASE + 'Reservoir Model, 5\nReservoir Output File Name, /nonexistent/profile.txt\n',
            'missing': None,
            # relative output-file *parameters* (not the command-line argument) are resolved against the starting directory
            'ok_html': WL.GEO_BASE + 'HTML Output File, web out/report.html\n',
        }
        forms = histsim.OUT_FORMS
        cwds = ['plain', 'with space', 'deep/a/b']
        cid = 0
        for rk in reqs:
            for form in (forms if rk == 'ok' else ['rel', 'abs'] if rk == 'ok_html' else ['absent', 'rel', 'abs']):
                for cw in (cwds if rk == 'ok' and tier == 'thorough' else cwds[:2] if rk == 'ok' else cwds[:1]):
                    cid += 1
                    cases.append({'id': cid, 'req': rk, 'out': form, 'cwd': cw})
        # output paths at which no report can be written while the JSON next to it can
        for form in histsim.UNWRITABLE_FORMS:
            cid += 1
            cases.append({'id': cid, 'req': 'ok', 'out': form, 'cwd': 'plain'})
        # a starting directory whose name holds a '%' (default name, relative name; succeeding and failing request)
        for rk, form in (('ok', 'absent'), ('ok', 'rel'), ('reject', 'absent')):
            cid += 1
            cases.append({'id': cid, 'req': rk, 'out': form, 'cwd': 'util 90% runs'})

        # input names that are also shell patterns, each next to ANOTHER valid input that the pattern matches: the command line
        # runs the file that was named (or fails when that file does not exist), never the sibling
        for rk, inname, sib in (('ok', 'case[1].txt', 'case1.txt'), ('ok', 'what?.txt', 'what1.txt'), ('ok', 'all*.txt', 'all of them.txt'),
                                ('missing', 'nothing[1].txt', 'nothing1.txt')):
            cid += 1
            cases.append({'id': cid, 'req': rk, 'out': 'rel', 'cwd': 'plain', 'inname': inname, 'sibling': sib})

        def run_case(c):
            d = os.path.join(root, f"case{c['id']}")
            cwd = os.path.join(d, c['cwd'])
            os.makedirs(cwd)
            os.makedirs(os.path.join(d, 'in put'))
            if c['req'] == 'ok_html':
                os.makedirs(os.path.join(cwd, 'web out'))
            os.makedirs(os.path.join(d, 'abs out'))
            inp = os.path.join(d, 'in put', c.get('inname', 'request.txt'))
            if c.get('sibling'):
                with open(os.path.join(d, 'in put', c['sibling']), 'w') as f:
                    f.write(WL.GEO_BASE + 'Gradient 1, 48\n')
            if reqs[c['req']] is not None:
                with open(inp, 'w') as f:
                    f.write(reqs[c['req']])
            name = histsim.OUT_NAMES.get(c['out'])
            if c['out'] in histsim.UNWRITABLE_FORMS:
                name = histsim.UNWRITABLE_NAMES[c['out']]
                arg, full = name, os.path.join(cwd, name)
                if c['out'] == 'rel_isdir':
                    os.makedirs(full)
                else:
                    os.symlink(os.path.join('no such dir', 'x.out'), full)
            elif c['out'] == 'rel_linkdotdot':
                tgt = os.path.join(d, 'abs out', 'deep')
                os.makedirs(tgt, exist_ok=True)
                os.symlink(tgt, os.path.join(cwd, 'outlnk'))
                arg, full = name, os.path.join(d, 'abs out', 'via.out')
            elif name is None:
                arg, full = None, os.path.join(cwd, 'HDR.out')
            elif c['out'].startswith('abs'):
                arg = full = os.path.join(d, 'abs out', name)
            else:
                arg, full = name, (os.path.normpath(os.path.join(cwd, name)) if c['out'] == 'rel_dotdot' else os.path.join(cwd, name))
            if c['out'] not in histsim.UNWRITABLE_FORMS:
                os.makedirs(os.path.dirname(full), exist_ok=True)
            if c['out'] == 'rel_symlink':
                os.makedirs(os.path.join(cwd, 'runs'), exist_ok=True)
                os.symlink(os.path.join('runs', 'r1.out'), full)
            jp = os.path.join(os.path.dirname(full), os.path.splitext(os.path.basename(full))[0] + '.json')
            os.makedirs(os.path.join(d, 'home'), exist_ok=True)
            env = dict(os.environ, PYTHONPATH=repo_src, TMPDIR=os.path.join(d), HOME=os.path.join(d, 'home'))
            before = histsim.list_dir(d)
            inp_arg = os.path.relpath(inp, cwd) if c['id'] % 2 else inp
            if c['id'] % 3 == 0:
                os.makedirs(os.path.join(d, 'in put', '.sub'), exist_ok=True)
                os.symlink(os.path.join(d, 'in put', '.sub'), os.path.join(cwd, 'inlnk'))
                inp_arg = os.path.join('inlnk', '..', os.path.basename(inp))
            if c['out'] == 'rel_dash':
                cmd_tail = [inp_arg, '--', arg]
            elif c['id'] % 5 == 0:
                cmd_tail = ['--', inp_arg] + ([arg] if arg else [])
            else:
                cmd_tail = [inp_arg] + ([arg] if arg else [])
            r = subprocess.run([sys.executable, '-m', 'geophires_x'] + cmd_tail,
                               cwd=cwd, env=env, capture_output=True, text=True, timeout=300)
            after = histsim.list_dir(d)
            out = {'rc': r.returncode, 'report': None, 'json': os.path.exists(jp), 'new': sorted(after - before),
                   'full': os.path.relpath(full, d), 'jp': os.path.relpath(jp, d), 'stderr': r.stderr[-300:]}
            if os.path.isfile(full):
                with open(full, encoding='utf-8') as f:
                    out['report'] = histsim.canon_report(f.read(), d)
            if c['out'] == 'rel_symlink':
                tgt = os.path.join(cwd, 'runs', 'r1.out')
                out['link_ok'] = os.path.islink(full) and os.path.isfile(tgt) and open(tgt, 'rb').read() == open(full, 'rb').read()
            return out

        with ThreadPoolExecutor(max_workers=D.jobs()) as ex:
            results = list(ex.map(run_case, cases))
        # reference report for the ok content: in-process client in a fresh interpreter
        ref = subprocess.run([sys.executable, '-c', (
            'import sys,os,tempfile;sys.path.insert(0,%r);from pathlib import Path;'
            'from geophires_x_client import GeophiresXClient,GeophiresInputParameters;'
            'r=GeophiresXClient().get_geophires_result(GeophiresInputParameters(from_file_path=Path(sys.argv[1])));'
            'sys.stdout=sys.__stdout__;print("@@@"+open(r.output_file_path).read())') % repo_src,
            _write(root, 'ref_request.txt', reqs['ok'])], capture_output=True, text=True, timeout=300, env=dict(os.environ, TMPDIR=root))
        ref_report = histsim.canon_report(ref.stdout.split('@@@', 1)[1].rstrip('\n') + '\n', root) if '@@@' in ref.stdout else None

        def V(c, cls, cause, detail):
            viols.append({'property': 'C20', 'cls': cls, 'cause': cause, 'detail': f"python -m geophires_x, request={c['req']}, out={c['out']}, cwd={c['cwd']!r}: {detail}", 'case': c})
        for c, o in zip(cases, results):
            if c['req'] == 'ok_html':
                want = os.path.join(c['cwd'], 'web out', 'report.html')
                if o['rc'] != 0:
                    V(c, 'exit_status', 'cli_html_parameter', f"exit status {o['rc']}; stderr ...{o['stderr'][-160:]!r}")
                elif want not in o['new']:
                    V(c, 'wrong_output_path', 'html_output_parameter',
                      f"'HTML Output File, web out/report.html' did not produce {want}; new files {[x for x in o['new'] if x.endswith('.html')][:3]}")
                stray = [x for x in o['new'] if x not in (o['full'], o['jp']) and not x.startswith(os.path.join(c['cwd'], 'web out') + os.sep)
                         and not x.startswith('geophires') and '__pycache__' not in x and not x.startswith('home/.')]
                if stray:
                    V(c, 'stray_file', 'cli_html_parameter', f'unexpected new files {stray[:4]}')
                continue
            if c['out'] in histsim.UNWRITABLE_FORMS:
                if o['rc'] == 0 and (o['report'] is None or ref_report is None or o['report'].rstrip('\n') != ref_report.rstrip('\n')):
                    V(c, 'exit_status', 'cli_exit_0_although_the_report_could_not_be_written',
                      f"exit status 0 although no report could be written at {o['full']}")
                continue
            if c['req'] == 'ok' and c['out'] == 'rel_symlink' and o['rc'] == 0 and not o.get('link_ok', True):
                V(c, 'wrong_output_path', 'cli_symlink_replaced', f"the output path {o['full']} is a symbolic link to runs/r1.out: after the run it is "
                  'no longer a link, or the file it designates does not hold the report')
            if c['req'] == 'ok':
                if o['rc'] != 0:
                    V(c, 'exit_status', f"cli_{c['out']}", f"exit status {o['rc']} for a succeeding run; stderr ...{o['stderr'][-160:]!r}")
                if o['report'] is None:
                    V(c, 'wrong_output_path', f"cli_{c['out']}", f"no report at {o['full']}; new files {o['new'][:4]}")
                elif ref_report is not None and o['report'].rstrip('\n') != ref_report.rstrip('\n'):
                    V(c, 'entrypoint_report_diff', 'cli_vs_client', 'report differs from the client: ' + histsim._first_diff(o['report'], ref_report))
                if not o['json']:
                    V(c, 'missing_json', f"cli_{c['out']}", f"no JSON at {o['jp']}; new files {o['new'][:4]}")
                stray = [x for x in o['new'] if x not in (o['full'], o['jp']) and not x.startswith('geophires') and '__pycache__' not in x and not x.startswith('home/.')
                         and not (c['out'] == 'rel_symlink' and x.endswith(os.path.join('runs', 'r1.out')))]
                if stray:
                    V(c, 'stray_file', 'cli', f'unexpected new files {stray[:4]}')
            else:
                if o['rc'] == 0:
                    V(c, 'exit_status', 'cli_exit_0_on_failure', 'exit status 0 although the simulation failed')
                if o['report'] is not None:
                    # (all failing request classes of the matrix fail before or inside the calculation)
                    V(c, 'report_written_on_failure', 'cli', f"failing run left a report at {o['full']}")
        info = {'cases': len(cases), 'exhaustive_over': 'request class x output form x cwd kind', 'reference_report_available': ref_report is not None,
                'sample_case': dict(cases[0], result={k: v for k, v in results[0].items() if k != 'report'})}
        if ref_report is None:
            viols.append({'property': 'C20', 'cls': 'harness', 'cause': 'no_reference', 'detail': ref.stderr[-300:], 'case': {'id': 0}})
        return [v for v in viols if v['cls'] != 'harness'], info
    finally:
        shutil.rmtree(root, ignore_errors=True)


def mc_embedded(tier, base):
    """small batch of simulated Monte-Carlo runs with GEOPHIRES as the program: the report each iteration copies from its
    client is compared with the client run of base input + recorded sampled values (C20, Monte-Carlo-embedded clause)"""
    from . import mcsim
    budget = 20.0 if tier == 'quick' else 120.0
    b = D.Batch(mcsim, 'C20', tier).open()
    viols = []
    n = compared = 0
    t0 = time.monotonic()
    try:
        # (every other run: discrete inputs only on one or two simulated workers - the sequence A, B, A of sampled combinations
        # within one worker is where a report left over from another iteration would be copied)
        pls = ({'seed': D.run_seed(base, 500000 + i), 'tier': tier, 'replay_rows': 3,
                'force': dict({'program': 'geo', 'mode': 'strict'}, **({'discrete': True, 'W': 1 + (i // 2) % 2} if i % 2 else {}))}
               for i in range(100000))
        for idx, pl, rec in b.run(pls, 240.0, deadline=t0 + budget):
            if rec.get('harness_error'):
                b.harness_errors.append((pl['seed'], rec['harness_error'], rec.get('detail', '')))
                continue
            n += 1
            compared += rec.get('embedded_reports_compared') or 0
            for v in rec.get('violations') or []:
                if v['property'] == 'C20':
                    viols.append((pl, rec, v))
    finally:
        b.close()
    return viols, {'simulated_monte_carlo_runs': n, 'embedded_reports_compared': compared, 'harness_errors': len(b.harness_errors)}


def _write(root, name, text):
    p = os.path.join(root, name)
    with open(p, 'w') as f:
        f.write(text)
    return p
