"""C13 / C14: seeded search over schedules, fault sequences and settings files of the Monte-Carlo driver."""
import collections
import math
import os
import sys
import time

from . import driver as D
from . import mcsim

COMPONENTS = {
    'real': ['geophires_monte_carlo.MC_GeoPHIRES3.main', 'geophires_monte_carlo.MC_GeoPHIRES3.work_package',
             'geophires_monte_carlo.GeophiresMonteCarloClient', 'pylocker.Locker (acquire/release protocol)',
             'geophires_x_client.GeophiresXClient', 'hip_ra_x.HipRaXClient', 'hip_ra_x.hip_ra_x (full simulator)',
             'geophires_x (full simulator)', 'numpy global RandomState (real generator, per-process state swapped)'],
    'modelled': ['concurrent.futures.ProcessPoolExecutor -> dsim.kernel.SimPool (fork-at-first-submit, FIFO call queue, os._exit)',
                 'process scheduling and op durations (discrete-event, ChoiceSource)', 'wall clock / sleep / monotonic',
                 'pids, pid liveness, OS entropy, uuid1/uuid4', 'user-space write buffers in front of real files on tmpfs',
                 'atexit (registered, never run in pool workers)',
                 "the child process of the driver's generic Code_File path (subprocess.Popen seam -> a small pure 'site model' run as one step of "
                 'the worker; any other command line is a harness error)'],
    'stubbed': ['matplotlib.pyplot figure/hist/savefig (hist -> numpy.histogram)', 'stdout/stderr of the driver'],
}

ASSUMPTIONS = [
    'pool/kernel model read off CPython 3.12 concurrent.futures.process + multiprocessing.popen_fork on Linux (fork start method)',
    'rename is atomic; an append is one atomic write unless the short_write fault fires; uuid1/uuid4 unique across processes',
    'simulated processes share imported modules and memo tables of pure functions; numpy/random generator state, cwd, argv, '
    'entropy, pid and open write buffers are per process',
    'one simulator run inside an iteration is one atomic step (touches only files private to the iteration)',
    'done-callbacks of pool futures run in a simulated manager thread of the owning process, after the waiters were woken (CPython order)',
    'sampling, not enumeration: a clean batch is evidence over the seeds explored, not proof',
]

TIERS = {
    # tier: (wall limit for exploration in s, max runs, per-run wall limit, determinism pairs)
    # quick is bounded by a NUMBER of runs (about 55 s on 16 idle cores), so that what it explores does not shrink when the
    # machine is busy; the wall limit only stops it from taking more than a few minutes
    'quick': (200.0, 1200, 90.0, 48),
    'thorough': (1100.0, 200000, 180.0, 400),
}


def ks_p(d, n):
    """asymptotic Kolmogorov p-value"""
    if n == 0:
        return 1.0
    lam = (math.sqrt(n) + 0.12 + 0.11 / math.sqrt(n)) * d
    s = 0.0
    for j in range(1, 101):
        s += 2 * (-1) ** (j - 1) * math.exp(-2 * j * j * lam * lam)
    return max(0.0, min(1.0, s))


def main(prop, tier):
    t0 = time.monotonic()
    budget, max_runs, per_run, det_pairs = TIERS[tier]
    if os.environ.get('VERIF_BUDGET'):
        budget = float(os.environ['VERIF_BUDGET'])
    base = D.base_seed()
    findings = D.load_findings()
    batch = D.Batch(mcsim, prop, tier).open()
    tally = D.Tally()
    interleavings = set()
    assignments = set()
    digests = {}
    samples = []
    viols = []          # (payload, rec, violation)
    pit = collections.defaultdict(list)
    sim_seconds = 0.0
    evaluations = 0
    nontrivial = set()
    try:
        payloads = ({'seed': D.run_seed(base, i), 'tier': tier} for i in range(max_runs))
        for idx, pl, rec in batch.run(payloads, per_run, deadline=t0 + budget):
            if rec.get('harness_error'):
                continue
            evaluations += 1
            c = rec['config']
            tally.add('mode_' + c['mode'])
            tally.add('program_' + c['program'])
            tally.merge('fault_', rec.get('fault_fired'))
            tally.merge('probe_', rec.get('probes'))
            tally.add('iterations', rec.get('tasks') or 0)
            tally.add('rows', rec.get('rows') or 0)
            tally.add('rows_replayed', rec.get('rows_replayed') or 0)
            tally.add('events', rec.get('events') or 0)
            if rec.get('workers_used', 0) >= 2:
                tally.add('probe_runs_with_2plus_workers_used')
            if c.get('pre_run'):
                tally.add('probe_runs_preceded_by_an_earlier_run_in_the_same_driver_process')
            if c.get('second_driver'):
                tally.add('probe_runs_with_a_second_concurrent_driver_process')
            if c.get('special') == 'mpf':
                tally.add('probe_runs_sampling_only_the_fracture_separation_of_the_parallel_fractures_model')
            if c.get('dup_param'):
                tally.add('probe_runs_whose_base_input_states_a_sampled_parameter_twice')
            if c.get('na_output'):
                tally.add('probe_runs_tracking_an_output_that_is_not_a_number_in_some_iterations')
            if rec.get('outputs_with_non_numeric_cells'):
                tally.add('probe_summaries_compared_while_a_column_holds_non_numeric_cells')
            if (rec.get('pools') or 0) > 1:
                tally.add('probe_runs_using_more_than_one_pool')
            tally.add('embedded_reports', rec.get('embedded_reports_compared') or 0)
            if rec.get('failed_iterations'):
                tally.add('probe_runs_with_failed_iterations')
            if rec.get('explained_loss'):
                tally.add('probe_runs_with_explained_loss')
                tally.merge('explained_loss_', rec['explained_loss'])
            if rec.get('inconclusive'):
                tally.add('inconclusive_' + rec['inconclusive'])
            sim_seconds += rec.get('sim_seconds') or 0.0
            digests[pl['seed']] = rec.get('digest')
            if rec.get('interleaving'):
                interleavings.add(rec['interleaving'])
                if rec.get('workers_used', 0) >= 2:
                    nontrivial.add(rec['interleaving'])
            if rec.get('assignment'):
                assignments.add(rec['assignment'])
            for d, u in rec.get('pit') or []:
                pit[d].append(u)
            if len(samples) < 3 and rec.get('workers_used', 0) >= 2:
                samples.append({'seed': pl['seed'], 'config': {k: c[k] for k in ('mode', 'program', 'iterations', 'W', 'faults', 'inputs', 'outputs')},
                                'events': rec.get('events'), 'rows': rec.get('rows'), 'assignment': rec.get('assignment'),
                                'interleaving': rec.get('interleaving'), 'fault_fired': rec.get('fault_fired'),
                                'digest': rec.get('digest')})
            if rec.get('lost_without_failures'):
                tally.add('runs_losing_rows_without_failed_iterations')
            for v in rec.get('violations') or []:
                if v['property'] == prop:
                    viols.append((pl, rec, v))
        explore_wall = time.monotonic() - t0
        if tally.c['runs_losing_rows_without_failed_iterations']:
            # rows are lost even when nothing fails: a general loss (C13), not a failure leaking into other rows
            viols = [x for x in viols if not x[2].get('conditional')]
        # ---- pooled distribution test (C13, thorough) --------------------------------
        dist_report = {}
        if prop == 'C13':
            for d, us in pit.items():
                us = sorted(us)
                n = len(us)
                if n < 200:
                    continue
                dstat = max(max((i + 1) / n - u, u - i / n) for i, u in enumerate(us))
                p = ks_p(dstat, n)
                dist_report[d] = {'n': n, 'ks_d': round(dstat, 5), 'p': p}
                if p < 1e-9:
                    viols.append(({'seed': base, 'pooled': True}, {'choices': [], 'config': None},
                                  {'property': 'C13', 'cls': 'wrong_distribution', 'cause': d,
                                   'detail': f'pooled KS over {n} samples of {d}: D={dstat:.4f}, p={p:.3g}'}))
        # ---- determinism self-test -----------------------------------------------------
        det = {'pairs': 0, 'mismatches': 0, 'hashseed_pairs': 0, 'hashseed_mismatches': 0}
        seeds = sorted(digests)[:det_pairs] if tier == 'quick' else sorted(digests)[::max(1, len(digests) // det_pairs)][:det_pairs]
        if seeds:
            for idx, pl, rec in batch.run(({'seed': s, 'tier': tier} for s in reversed(seeds)), per_run):
                if rec.get('harness_error'):
                    continue
                det['pairs'] += 1
                if rec.get('digest') != digests[pl['seed']]:
                    det['mismatches'] += 1
                    batch.harness_errors.append((pl['seed'], 'nondeterminism', f"digest {rec.get('digest')} != {digests[pl['seed']]}"))
            batch.close()
            hs = '12345' if os.environ.get('PYTHONHASHSEED') != '12345' else '777'
            det.update(_fresh_interpreter_digests(seeds[:8 if tier == 'quick' else 32], digests, tier, hs, batch))
        else:
            batch.close()
        # ---- violations -----------------------------------------------------------------
        exit_code = 0
        known_seen = collections.OrderedDict()
        new = []
        for pl, rec, v in viols:
            f = D.match_finding(v, findings)
            if f is not None:
                known_seen.setdefault(f['key'], (f, v, pl))
            else:
                new.append((pl, rec, v))
        for key, (f, v, pl) in known_seen.items():
            print(f"KNOWN-FINDING: property={prop} {f['key']}: {f.get('summary', v['detail'])} (e.g. seed {pl.get('seed')})")
        reported = set()
        if new:
            batch2 = D.Batch(mcsim, prop, tier).open()
            try:
                for pl, rec, v in new:
                    sig = (v['cls'], v['cause'])
                    if sig in reported:
                        continue
                    reported.add(sig)
                    if pl.get('pooled'):
                        path = os.path.join(D.VERIF, 'replays', f"{prop}-pooled-{base}.json")
                        os.makedirs(os.path.dirname(path), exist_ok=True)
                        import json
                        with open(path, 'w') as fh:
                            json.dump({'property': prop, 'engine': 'mcsim', 'pooled': True, 'base_seed': base, 'tier': tier,
                                       'expected': {'cls': v['cls'], 'cause': v['cause']}, 'detail': v['detail'],
                                       'replay_cmd': f'VERIF_SEED={base} ./check {prop} {tier}'}, fh, indent=1)
                        print(f"VIOLATION property={prop} replay={path}")
                        print(f"  {v['cls']}/{v['cause']}: {v['detail']}")
                        exit_code = 1
                        continue
                    payload = dict(pl, want_log=200)
                    if len(reported) <= 2:
                        choices, srec, used = D.shrink(batch2, payload, rec, v)
                    else:
                        choices, srec, used = list(rec['choices']), rec, 0
                    # final run with the minimised list to capture digest + trace tail
                    final = None
                    for _, _, r in batch2.run([dict(payload, choices=choices)], per_run):
                        final = r
                    if not final or not D.same_violation(final, v):
                        final, choices = rec, list(rec['choices'])
                        for _, _, r in batch2.run([dict(payload, choices=choices)], per_run):
                            final = r
                    path = D.write_replay(prop, 'mcsim', payload, choices, final, v)
                    ok, out = D.confirm_replay(path)
                    if not ok:
                        batch.harness_errors.append((pl['seed'], 'replay_not_reproduced', out[-1500:]))
                        continue
                    print(f"VIOLATION property={prop} replay={path}")
                    print(f"  {v['cls']}/{v['cause']}: {v['detail']}")
                    print(f"  seed={pl['seed']} choices {len(rec['choices'])} -> {len(choices)} after {used} shrink replays")
                    exit_code = 1
            finally:
                batch2.close()
        wall = time.monotonic() - t0
        coverage = {
            'evaluations': evaluations,
            'distinct_nontrivial': len(nontrivial),
            'rule': 'one evaluation = one simulated execution of the real Monte-Carlo driver (settings file, worker count, delay regime, '
                    'fault subset and every scheduling decision drawn from the seed). distinct = distinct interleaving signatures '
                    '(order of task starts/ends, lock reads/acquires/releases and result-file writes with workers renamed by first '
                    'appearance); non-trivial = at least two simulated workers each ran an iteration',
            'samples': samples,
            'seeds': {'base': base, 'first': D.run_seed(base, 0), 'count': evaluations},
            'runs_per_hour': int(evaluations / max(explore_wall, 1e-9) * 3600),
            'simulated_seconds': round(sim_seconds, 3),
            'simulated_iterations': tally.c['iterations'],
            'seam_events': tally.c['events'],
            'result_rows_checked': tally.c['rows'],
            'rows_resimulated': tally.c['rows_replayed'],
            'rows_resimulated_where': 'each in its own process forked from the pristine state of the run child (before it executed anything)',
            'monte_carlo_embedded_reports_compared_with_client': tally.c['embedded_reports'],
            'lock_protocol': ('pylocker acquisitions observed: %d (0 means the driver under test does not use the file lock, as on the '
                              'repaired tree where the parent is the only writer; stale_lock then has nothing to act on)'
                              % sum(v for k_, v in tally.c.items() if k_.startswith('probe_acquire_code_'))),
            'distinct_interleavings': len(interleavings),
            'distinct_task_to_worker_assignments': len(assignments),
            'strict_runs': tally.c['mode_strict'], 'extended_runs': tally.c['mode_extended'],
            'program_mix': tally.sub('program_'),
            'fault_fired': tally.sub('fault_'),
            'probes': tally.sub('probe_'),
            'explained_loss': tally.sub('explained_loss_'),
            'inconclusive': tally.sub('inconclusive_'),
            'distribution_test': dist_report,
            'determinism': det,
            'components': COMPONENTS,
            'known_findings_seen': list(known_seen),
            'harness_errors': len(batch.harness_errors),
        }
        D.write_evidence(prop, tier, base, coverage, ASSUMPTIONS, wall, 0 if exit_code == 0 else len(reported))
        print(f'{prop} {tier}: {evaluations} simulated runs, {len(nontrivial)} distinct non-trivial interleavings, '
              f'{tally.c["iterations"]} iterations, faults {tally.sub("fault_")}, determinism {det}, {wall:.0f}s')
        if batch.harness_errors:
            for s, kind, detail in batch.harness_errors[:5]:
                print(f'HARNESS-ERROR {kind} seed={s}: {detail[-800:]}')
            return 2
        if evaluations == 0:
            print('HARNESS-ERROR no run completed')
            return 2
        return exit_code
    finally:
        batch.close()


def _fresh_interpreter_digests(seeds, digests, tier, hashseed, batch):
    """same seeds in a freshly exec'ed interpreter under another PYTHONHASHSEED"""
    import json
    import subprocess
    out = {'hashseed_pairs': 0, 'hashseed_mismatches': 0, 'other_hashseed': hashseed}
    if not seeds:
        return out
    env = dict(os.environ, PYTHONHASHSEED=hashseed, DSIM_REEXEC='1', VERIF_JOBS=str(min(8, D.jobs())))
    try:
        r = subprocess.run([sys.executable, os.path.join(D.VERIF, 'check'), 'digests', 'mcsim', tier, ','.join(map(str, seeds))],
                           capture_output=True, text=True, timeout=600, env=env, cwd=D.VERIF)
        got = json.loads(r.stdout.strip().splitlines()[-1])
    except Exception as e:  # noqa: BLE001
        batch.harness_errors.append((0, 'fresh_interpreter_failed', str(e)[:500]))
        return out
    for s in seeds:
        out['hashseed_pairs'] += 1
        if got.get(str(s)) != digests[s]:
            out['hashseed_mismatches'] += 1
            batch.harness_errors.append((s, 'nondeterminism', f'PYTHONHASHSEED={hashseed}: {got.get(str(s))} != {digests[s]}'))
    return out
