"""Workload tables for the simulated Monte-Carlo runs (engine mcsim).

Every entry was checked against the parameter declarations of the pinned tree: `ok` distributions have
their whole support inside the declared [Min, Max]; `edge` distributions stick out on one side so that
a share of the iterations is rejected by the real simulator (fault kind iter_fail)."""

HIP_BASE = """Reservoir Temperature, 250.0
Rejection Temperature, 60.0
Reservoir Porosity, 10.0
Reservoir Area, 55.0
Reservoir Thickness, 0.25
Reservoir Life Cycle, 25
"""

HIP_BASE_2 = """Reservoir Temperature, 180.0
Rejection Temperature, 30.0
Reservoir Porosity, 18.0
Reservoir Area, 81.0
Reservoir Thickness, 0.286
Reservoir Life Cycle, 30
Rock Heat Capacity, 2.84e12
Recoverable Fluid Factor, 0.5
"""

# name -> dict(ok=[(dist, args...)], edge=[(dist, args...)], discrete=bool)
HIP_INPUTS = {
    'Reservoir Temperature': dict(
        ok=[('uniform', 130, 170), ('normal', 200, 8), ('triangular', 150, 180, 230), ('lognormal', 5.2, 0.05)],
        edge=[('uniform', 900, 1100), ('normal', 1000, 20)]),
    'Rejection Temperature': dict(
        ok=[('uniform', 20, 33), ('triangular', 10, 25, 40), ('normal', 30, 2), ('lognormal', 3.2, 0.1), ('binomial', 30, 0.95)],
        edge=[('uniform', -4, 4), ('normal', 0.1, 1)]),
    'Reservoir Porosity': dict(
        ok=[('uniform', 9.0, 28.0), ('triangular', 5, 10, 20), ('normal', 15, 1), ('lognormal', 2.5, 0.1), ('binomial', 20, 0.9)],
        edge=[('uniform', 90, 110), ('triangular', 95, 100, 105)]),
    'Reservoir Area': dict(
        ok=[('uniform', 50.0, 120.0), ('lognormal', 4.0, 0.2), ('normal', 80, 5), ('triangular', 40, 60, 100)],
        edge=[('normal', 0, 10), ('uniform', -50, 50)]),
    'Reservoir Thickness': dict(
        # (the last two: a narrow range of small numbers, and magnitudes around 1e-6 - whatever is done to a sample between
        # drawing it and recording it must keep it distinct and inside its support)
        ok=[('uniform', 0.122, 0.299), ('triangular', 0.1, 0.25, 0.5), ('lognormal', -1.4, 0.2), ('normal', 0.3, 0.01),
            ('uniform', 0.005, 0.006), ('triangular', 1.2e-06, 2.5e-06, 4.8e-06)],
        edge=[('uniform', -0.2, 0.2)]),
    'Recoverable Fluid Factor': dict(
        ok=[('uniform', 0.3, 0.7), ('triangular', 0.2, 0.5, 0.8), ('normal', 0.5, 0.02)],
        edge=[('uniform', 0.8, 1.2), ('normal', 1.0, 0.1)]),
    'Recoverable Heat from Rock': dict(
        ok=[('uniform', 0.5, 0.9), ('triangular', 0.6, 0.75, 0.9)],
        edge=[('uniform', 0.9, 1.1)]),
    'Reservoir Life Cycle': dict(
        ok=[('binomial', 60, 0.5), ('binomial', 40, 0.7), ('binomial', 3, 0.5)],
        edge=[('binomial', 400, 0.25)], discrete=True),
}

HIP_OUTPUTS = [
    'Producible Heat (reservoir)',
    'Producible Electricity (reservoir)',
    'Stored Heat (reservoir)',
    'Stored Heat (rock)',
    'Reservoir Volume (rock)',
    'Available Heat (reservoir)',
    'Recovery Factor (reservoir)',
    'Mass of Reservoir (fluid)',
    'Producible Electricity/Unit Area (reservoir)',
    'Stored Heat (fluid)',
    'Mass of Reservoir (rock)',
    'Specific Enthalpy (reservoir)',
    'Producible Heat/Unit Area (reservoir)',
    'Producible Heat/Unit Volume (reservoir)',
    'Producible Electricity/Unit Volume (reservoir)',
    'Reservoir Volume (reservoir)',
    'Recoverable Volume (recoverable fluid)',
]

GEO_BASE = """Reservoir Model,4
Drawdown Parameter,0.005
Reservoir Depth,2
Number of Segments,1
Gradient 1,65
Number of Production Wells,3
Number of Injection Wells,2
Production Well Diameter,9.625
Injection Well Diameter,9.625
Ramey Production Wellbore Model,0
Production Wellbore Temperature Drop,0
Injection Wellbore Temperature Gain,0
Production Flow Rate per Well,110
Maximum Temperature,375
Reservoir Volume Option,4
Reservoir Volume,1e9
Water Loss Fraction,0.0
Injectivity Index,10
Productivity Index,10
Injection Temperature,70
Maximum Drawdown,1
Reservoir Heat Capacity,1050
Reservoir Density,2700
Reservoir Thermal Conductivity,3
End-Use Option,1
Power Plant Type,1
Circulation Pump Efficiency,0.8
Utilization Factor,0.9
Surface Temperature,15
Ambient Temperature,15
Plant Lifetime,30
Economic Model,3
Fraction of Investment in Bonds,0.65
Inflated Bond Interest Rate,0.07
Inflated Equity Interest Rate,0.12
Inflation Rate,0.025
Combined Income Tax Rate,0.392
Gross Revenue Tax Rate,0
Investment Tax Credit Rate,0
Property Tax Rate,0
Inflation Rate During Construction,0.05
Print Output to Console,0
Time steps per year,4
"""

GEO_BASE_2 = """Reservoir Model,3
Drawdown Parameter,0.00002
Reservoir Depth,3
Number of Segments,1
Gradient 1,70
Number of Production Wells,3
Number of Injection Wells,2
Production Well Diameter,8.5
Injection Well Diameter,8.5
Ramey Production Wellbore Model,1
Injection Wellbore Temperature Gain,0
Production Flow Rate per Well,70
Maximum Temperature,400
Reservoir Volume Option,1
Fracture Shape,1
Fracture Area,200000
Number of Fractures,12
Fracture Separation,80
Injectivity Index,5
Injection Temperature,70
Reservoir Heat Capacity,1050
Reservoir Density,2700
Reservoir Thermal Conductivity,3
Reservoir Impedance,0.05
Water Loss Fraction,0.02
End-Use Option,1
Power Plant Type,2
Circulation Pump Efficiency,0.8
Utilization Factor,0.9
Surface Temperature,15
Ambient Temperature,15
Plant Lifetime,30
Economic Model,1
Fixed Charge Rate,0.05
Print Output to Console,0
Time steps per year,4
"""

GEO_INPUTS = {
    'Gradient 1': dict(ok=[('uniform', 55, 75), ('normal', 65, 2), ('triangular', 60, 65, 72)], edge=[]),
    # (the third range straddles the point where net electricity production turns negative and the report drops a line: the layout
    # of the report then differs between the iterations of one run)
    'Drawdown Parameter': dict(ok=[('uniform', 0.000012, 0.000018), ('triangular', 0.004, 0.005, 0.006), ('uniform', 0.00001, 0.0006)], edge=[]),
    'Utilization Factor': dict(ok=[('uniform', 0.7, 0.95), ('triangular', 0.8, 0.9, 0.99)], edge=[('uniform', 0.9, 1.1)]),
    'Ambient Temperature': dict(ok=[('triangular', 10, 15, 20), ('normal', 15, 1)], edge=[('uniform', 40, 60)]),
    'Production Flow Rate per Well': dict(ok=[('uniform', 80, 120), ('lognormal', 4.6, 0.05)], edge=[]),
    'Circulation Pump Efficiency': dict(ok=[('uniform', 0.6, 0.9)], edge=[('normal', 1.0, 0.05)]),
    'Plant Lifetime': dict(ok=[('binomial', 50, 0.6), ('binomial', 3, 0.5)], edge=[], discrete=True),
    # small discrete supports: identical sampled combinations recur within one run (and within one worker); a draw of 0 is
    # outside the allowable range and fails that iteration
    'Number of Production Wells': dict(ok=[('binomial', 3, 0.5), ('binomial', 4, 0.6)], edge=[], discrete=True),
    'Number of Injection Wells': dict(ok=[('binomial', 2, 0.6), ('binomial', 3, 0.5)], edge=[], discrete=True),
    # names that are a strict prefix of another parameter line of the base inputs ('Inflation Rate During Construction',
    # 'Reservoir Volume Option'): whatever the driver does to build an iteration's input must not confuse the two
    'Inflation Rate': dict(ok=[('uniform', 0.01, 0.04), ('triangular', 0.015, 0.025, 0.035)], edge=[('uniform', 0.9, 1.1)]),
    'Reservoir Volume': dict(ok=[('uniform', 5e8, 2e9), ('lognormal', 20.7, 0.1), ('normal', 1e9, 5e7)], edge=[]),
}

GEO_OUTPUTS = [
    'Average Net Electricity Production',
    'Electricity breakeven price',
    'Total capital costs',
    'Average Production Temperature',
    'Average Annual Total Electricity Generation',
    'Project NPV',
    # labels checked (design time) to match exactly one line of the report of both synthetic base inputs
    'Initial pumping power/net installed power',
    'Project VIR=PI=PIR',
    'Heat to Power Conversion Efficiency',
    'Average Pumping Power',
    'Drilling and completion costs per well',
    'Average Reservoir Heat Extraction',
    'Project IRR',
    'Water loss rate',
    'Bottom-hole temperature',
    'Total operating and maintenance costs',
    'Maximum Production Temperature',
]


# the legacy HIP-RA program (hip_ra/HIP_RA.py): the third branch of work_package
HIPOLD_BASE = """Reservoir Temperature, 250.0
Rejection Temperature, 60.0
Formation Porosity, 10.0
Reservoir Area, 55.0
Reservoir Thickness, 0.25
Reservoir Life Cycle, 25
Heat Capacity Of Water, -1
Density Of Water, -1
"""

HIPOLD_BASE_2 = """Reservoir Temperature, 180.0
Rejection Temperature, 30.0
Formation Porosity, 18.0
Reservoir Area, 81.0
Reservoir Thickness, 0.286
Reservoir Life Cycle, 30
Heat Capacity Of Water, -1
Density Of Water, -1
"""

HIPOLD_INPUTS = {
    'Reservoir Temperature': HIP_INPUTS['Reservoir Temperature'],
    'Rejection Temperature': HIP_INPUTS['Rejection Temperature'],
    'Formation Porosity': HIP_INPUTS['Reservoir Porosity'],
    'Reservoir Area': HIP_INPUTS['Reservoir Area'],
    'Reservoir Thickness': HIP_INPUTS['Reservoir Thickness'],
    'Reservoir Life Cycle': HIP_INPUTS['Reservoir Life Cycle'],
}

HIPOLD_OUTPUTS = ['Producible Heat', 'Producible Electricity', 'Stored Heat', 'Available Heat', 'Wellhead Heat',
                  'Recovery Factor', 'Fluid Produced', 'Enthalpy', 'Reservoir Volume']


# the driver's documented rule "a result row containing -9999.0 is left out of the statistics": a HIP-RA-X set-up whose
# rock enthalpy lands in -9999.0x for about a quarter of the draws (found by a sub-agent; values checked against the pinned tree)
HIP_9999_BASE = """Reservoir Temperature, 50
Rejection Temperature, 200
Reservoir Porosity, 10.0
Reservoir Area, 55.0
Reservoir Thickness, 0.25
Reservoir Life Cycle, 25
Density Of Reservoir Rock, 1e11
"""
HIP_HUGE_INPUTS = [{'name': 'Reservoir Area', 'dist': 'uniform', 'args': [8000.0, 9900.0], 'edge': False, 'discrete': False},
                   {'name': 'Reservoir Thickness', 'dist': 'uniform', 'args': [2.0, 4.0], 'edge': False, 'discrete': False}]
HIP_HUGE_OUTPUTS = ['Producible Electricity (reservoir)', 'Producible Heat (reservoir)', 'Reservoir Volume (reservoir)']
HIP_9999_INPUT = {'name': 'Rock Heat Capacity', 'dist': 'uniform', 'args': [6.66590e12, 6.66614e12], 'edge': False, 'discrete': False}
HIP_9999_OUTPUTS = ['Specific Enthalpy (rock)', 'Producible Electricity (reservoir)']


# a GEOPHIRES set-up (GEO_BASE_2) whose report drops a line for part of the sampled range (values checked against the pinned
# tree: impedance below ~0.012 -> wells flow without pumping; drawdown above ~0.00025 -> conversion efficiency not positive)
GEO_LAYOUT_INPUTS = [
    {'name': 'Reservoir Impedance', 'dist': 'uniform', 'args': [0.008, 0.02], 'edge': False, 'discrete': False},
    {'name': 'Drawdown Parameter', 'dist': 'uniform', 'args': [0.00001, 0.0006], 'edge': False, 'discrete': False},
    {'name': 'Reservoir Impedance', 'dist': 'triangular', 'args': [0.005, 0.012, 0.03], 'edge': False, 'discrete': False},
]
# tracked in every such run: the two lines below the vanishing one, and the vanishing line itself (its cell is then the
# placeholder for a missing value in some rows and a number in others)
GEO_LAYOUT_OUTPUTS = {'Reservoir Impedance': ['Average Pumping Power', 'Heat to Power Conversion Efficiency', 'Initial pumping power/net installed power'],
                      'Drawdown Parameter': ['Average Pumping Power', 'Heat to Power Conversion Efficiency']}


# a GEOPHIRES set-up with the multiple-parallel-fractures reservoir model in which ONLY the fracture separation is sampled: the
# non-dimensional time of the model's inverse Laplace transform is the same in every iteration, whatever is remembered per
# non-dimensional time between iterations of one worker (or inherited from the parent at fork) meets another separation
GEO_MPF_EXTRA = ('Reservoir Model, 1\nPlant Lifetime, 10\nTime steps per year, 1\nReservoir Volume Option, 1\nFracture Shape, 1\n'
                 'Fracture Area, 200000\nNumber of Fractures, 10\nFracture Separation, 40\n')
GEO_MPF_INPUTS = [
    {'name': 'Fracture Separation', 'dist': 'uniform', 'args': [25.0, 80.0], 'edge': False, 'discrete': False},
    {'name': 'Fracture Separation', 'dist': 'triangular', 'args': [25.0, 40.0, 90.0], 'edge': False, 'discrete': False},
]
GEO_MPF_OUTPUTS = ['Average Production Temperature', 'Average Net Electricity Production', 'Minimum Production Temperature',
                   'Average Reservoir Heat Extraction']


# --------------------------------------------------------------------------------------
# a user-supplied program (the driver's generic path: any other Code_File is started with subprocess.Popen and is expected to
# read <input file> and write <output file>).  The model below is what the simulated child process does; it is a pure function
# of the input file, fails without writing a report for some inputs, prints a value with thousands separators, a negative
# value and a line that is only printed for some results.
# --------------------------------------------------------------------------------------
TOY_NAME = 'site_model.py'

TOY_BASE = """Alpha, 3.0
Beta, 30
Count, 4
Gamma, 0.5
Alpha Scale, 2
"""

TOY_BASE_2 = """# another site
Alpha Scale, 1.5
Alpha, 2.25
Beta, 45.5
Gamma, 0.25
Count, 2
"""

TOY_INPUTS = {
    'Alpha': dict(ok=[('uniform', 1, 5), ('normal', 3, 0.25), ('triangular', 1, 2, 5), ('lognormal', 0.5, 0.25)],
                  edge=[('uniform', -1, 3), ('normal', 0.5, 1)]),
    'Beta': dict(ok=[('uniform', 10, 50), ('normal', 30, 5), ('triangular', 10, 20, 60), ('binomial', 60, 0.5)],
                 edge=[('uniform', 60, 140), ('normal', 100, 10)]),
    'Count': dict(ok=[('binomial', 6, 0.5), ('binomial', 3, 0.5)], edge=[], discrete=True),
    'Gamma': dict(ok=[('uniform', 0.1, 0.9), ('triangular', 0.1, 0.5, 0.9), ('normal', 0.5, 0.02)], edge=[('uniform', -0.5, 0.5)]),
}

TOY_OUTPUTS = ['Net Yield', 'Loss Factor', 'Total Cost', 'Margin', 'Unit Cost', 'Site Index']
# printed as a number for some results and as the text 'N/A' for others (what GEOPHIRES does with a payback period that is never reached)
TOY_NA_OUTPUT = 'Payback Period'


def toy_report(text):
    """-> report text, or None when the model fails (no report is written, exit status 1)"""
    params = {}
    for ln in text.split('\n'):
        s_ = ln.strip()
        if not s_ or s_.startswith('#') or ',' not in s_:
            continue
        parts = s_.split(',')
        params[parts[0].strip()] = parts[1].strip()
    try:
        a = float(params.get('Alpha', 1.0))
        b = float(params.get('Beta', 2.0))
        n = int(float(params.get('Count', 3)))
        g = float(params.get('Gamma', 0.5))
        sc = float(params.get('Alpha Scale', 1.0))
    except ValueError:
        return None
    if a <= 0 or b > 100 or g <= 0:
        return None      # "did not converge"
    lines = ['                 *** SITE MODEL REPORT ***', '',
             f'      Net Yield: {a * sc * b + n:.3f} units',
             f'      Loss Factor: {g / (a + 1):.6f}',
             f'      Total Cost: {a * 1e6 + b * 1234.5:,.2f} USD',
             f'      Margin: {n - a * b:.2f} %']
    if n > 1:
        lines.append(f'      Unit Cost: {(a * 1e6 + b) / n:.1f} USD')      # only printed for some results
    lines.append(f'      Site Index: {a * 7 + g:.4f}')
    lines.append(f'      Payback Period: {b / a:.2f} yr' if b / a < 11.0 else '      Payback Period: N/A')
    return '\n'.join(lines) + '\n'
